(** Storage accounting of every mutator of the model ([Trie.v]).

    Purely structural facts (no law about prefixes is used):
    - [slots_ok]: every slot below the arena length is either in the tree or in the free list,
      never both, never neither;
    - the cached counter moves exactly like the number of stored entries;
    - the arena length is a high-water mark: it only grows when the free list is empty, and
      removal-type operations never change it. *)
From Coq Require Import List NArith ZArith Bool Arith Lia ZifyN ZifyBool ZifyNat Permutation.
From PT Require Import Machine Trie Views.
Import ListNotations.

Section SL.
Variables (pfx V : Type).
Variables (peq contains : pfx -> pfx -> bool) (is_bit_set : pfx -> N -> bool)
          (plen : pfx -> N) (lcp : pfx -> pfx -> pfx) (pzero : pfx).

Notation tree := (tree pfx V).
Notation pmap := (pmap pfx V).
Notation to_right := (to_right pfx is_bit_set plen).
Notation get_node := (Trie.get_node pfx V peq contains is_bit_set plen).
Notation get := (Trie.get pfx V peq contains is_bit_set plen).
Notation ins := (Trie.ins pfx V peq contains is_bit_set plen lcp).
Notation vins := (Trie.vins pfx V peq contains is_bit_set plen lcp).
Notation modify := (Trie.modify pfx V peq contains is_bit_set plen).
Notation remove_self := (Trie.remove_self pfx V).
Notation absorb := (Trie.absorb pfx V).
Notation rem := (Trie.rem pfx V peq contains is_bit_set plen).
Notation free_all := (Trie.free_all pfx V).
Notation rc := (Trie.rc pfx V peq contains is_bit_set plen).
Notation ret := (Trie.ret pfx V).
Notation with_child := (Trie.with_child pfx V).
Notation empty := (Trie.empty pfx V pzero).
Notation insert := (Trie.insert pfx V peq contains is_bit_set plen lcp).
Notation remove := (Trie.remove pfx V peq contains is_bit_set plen).
Notation remove_keep_tree := (Trie.remove_keep_tree pfx V peq contains is_bit_set plen).
Notation remove_children := (Trie.remove_children pfx V peq contains is_bit_set plen pzero).
Notation clear := (Trie.clear pfx V pzero).
Notation retain := (Trie.retain pfx V).
Notation vacant_insert := (Trie.vacant_insert pfx V peq contains is_bit_set plen lcp).
Notation occ_insert := (Trie.occ_insert pfx V peq contains is_bit_set plen).
Notation occ_remove := (Trie.occ_remove pfx V peq contains is_bit_set plen).
Notation update_value := (Trie.update_value pfx V peq contains is_bit_set plen).
Notation from_list := (Trie.from_list pfx V peq contains is_bit_set plen lcp pzero).

(* ------------------------------------------------------------------------------------------ *)
(** * Definitions *)

Fixpoint ids (t : tree) : list N :=
  match t with Leaf => [] | Node i _ _ l r => i :: ids l ++ ids r end.

Definition seqN (n : N) : list N := map N.of_nat (seq 0 (N.to_nat n)).

(** every slot below the arena length is in the tree or in the free list, never both, never
    neither *)
Definition slots_ok (t : tree) (a : alloc) : Prop := Permutation (ids t ++ free a) (seqN (alen a)).

Definition nentries (t : tree) : Z := Z.of_nat (length (entries t)).
Definition nnodes (t : tree) : N := N.of_nat (length (ids t)).

Definition minv (m : pmap) : Prop := slots_ok (root m) (al m).
Definition cinv (m : pmap) : Prop := count (al m) = nentries (root m).

(* ------------------------------------------------------------------------------------------ *)
(** * Multiset counting: every [Permutation] goal becomes linear arithmetic *)

Notation cnt := (count_occ N.eq_dec).
Definition one (i z : N) : nat := if N.eq_dec i z then 1 else 0.
Definition ownn {A} (v : option A) : nat := match v with Some _ => 1 | None => 0 end.

Lemma cnt_cons i l z : cnt (i :: l) z = one i z + cnt l z.
Proof. unfold one. cbn [count_occ]. destruct (N.eq_dec i z); lia. Qed.

Lemma cnt_nil z : cnt [] z = 0.
Proof. reflexivity. Qed.

Lemma perm_cnt l1 l2 : Permutation l1 l2 <-> forall z, cnt l1 z = cnt l2 z.
Proof. apply Permutation_count_occ. Qed.

Lemma seqN_succ n : seqN (n + 1) = seqN n ++ [n].
Proof.
  unfold seqN. replace (N.to_nat (n + 1)) with (S (N.to_nat n)) by lia.
  rewrite seq_S, map_app. cbn [map]. rewrite Nat.add_0_l, N2Nat.id. reflexivity.
Qed.

Lemma length_seqN n : length (seqN n) = N.to_nat n.
Proof. unfold seqN. rewrite map_length, seq_length. reflexivity. Qed.

Lemma NoDup_seqN n : NoDup (seqN n).
Proof.
  unfold seqN. apply FinFun.Injective_map_NoDup; [|apply seq_NoDup].
  intros x y. apply Nat2N.inj.
Qed.

Lemma in_seqN n i : In i (seqN n) <-> (i < n)%N.
Proof.
  unfold seqN. rewrite in_map_iff. split.
  - intros [k [<- Hk]]. apply in_seq in Hk. lia.
  - intros H. exists (N.to_nat i). split; [apply N2Nat.id|]. apply in_seq. lia.
Qed.

Lemma slots_ok_cnt t a :
  slots_ok t a <-> forall z, cnt (ids t) z + cnt (free a) z = cnt (seqN (alen a)) z.
Proof.
  unfold slots_ok. rewrite perm_cnt. split; intros H z; specialize (H z);
    rewrite count_occ_app in *; exact H.
Qed.

Lemma slots_len t a : slots_ok t a -> length (ids t) + length (free a) = N.to_nat (alen a).
Proof.
  intros H. apply Permutation_length in H. rewrite app_length, length_seqN in H. exact H.
Qed.

(* ------------------------------------------------------------------------------------------ *)
(** * Views of a node along the descent direction [rt] *)

Lemma node_view i p v l r (rt : bool) :
  (forall z, cnt (ids (Node i p v l r)) z
             = one i z + cnt (ids (if rt then r else l)) z + cnt (ids (if rt then l else r)) z) /\
  length (ids (Node i p v l r))
    = S (length (ids (if rt then r else l)) + length (ids (if rt then l else r))) /\
  length (entries (Node i p v l r))
    = ownn v + length (entries (if rt then r else l)) + length (entries (if rt then l else r)).
Proof.
  cbn [ids entries]. split; [|split].
  - intros z. rewrite cnt_cons, count_occ_app. destruct rt; lia.
  - cbn [length]. rewrite app_length. destruct rt; lia.
  - rewrite !app_length. destruct v; cbn [length ownn]; destruct rt; lia.
Qed.

Lemma wc_view i p v l r (rt : bool) c :
  (forall z, cnt (ids (with_child i p v l r rt c)) z
             = one i z + cnt (ids c) z + cnt (ids (if rt then l else r)) z) /\
  length (ids (with_child i p v l r rt c)) = S (length (ids c) + length (ids (if rt then l else r))) /\
  length (entries (with_child i p v l r rt c))
    = ownn v + length (entries c) + length (entries (if rt then l else r)).
Proof.
  unfold Trie.with_child. destruct rt.
  - apply (node_view i p v l c true).
  - apply (node_view i p v c r false).
Qed.

Lemma leaf_node_view n q (x : V) :
  (forall z, cnt (ids (Node n q (Some x) Leaf Leaf)) z = one n z) /\
  length (ids (Node n q (Some x) Leaf Leaf)) = 1 /\
  length (entries (Node n q (Some x) Leaf Leaf)) = 1.
Proof. cbn. split; [|split]; reflexivity. Qed.

(** a new node that adopts [c] as its only child (on either side) *)
Lemma adopt_view n q (x : V) (b : bool) c :
  let nn := if b then Node n q (Some x) Leaf c else Node n q (Some x) c Leaf in
  (forall z, cnt (ids nn) z = one n z + cnt (ids c) z) /\
  length (ids nn) = S (length (ids c)) /\
  length (entries nn) = S (length (entries c)).
Proof.
  destruct b; cbn [ids entries app length]; (split; [|split]).
  - intros z. rewrite cnt_cons. reflexivity.
  - reflexivity.
  - reflexivity.
  - intros z. rewrite cnt_cons, app_nil_r. reflexivity.
  - rewrite app_nil_r. reflexivity.
  - rewrite app_nil_r. reflexivity.
Qed.

(** a new value-less branch node over [c] and the new leaf *)
Lemma branch_view b bp n q (x : V) (s : bool) c :
  let nn := Node n q (Some x) Leaf Leaf in
  let bn := if s then Node b bp None c nn else Node b bp None nn c in
  (forall z, cnt (ids bn) z = one b z + one n z + cnt (ids c) z) /\
  length (ids bn) = S (S (length (ids c))) /\
  length (entries bn) = S (length (entries c)).
Proof.
  destruct s; cbn [ids entries app length]; (split; [|split]).
  - intros z. rewrite cnt_cons, count_occ_app, cnt_cons, cnt_nil. lia.
  - rewrite app_length. cbn [length]. lia.
  - rewrite app_length. cbn [length]. lia.
  - intros z. rewrite !cnt_cons. lia.
  - reflexivity.
  - reflexivity.
Qed.

(* ------------------------------------------------------------------------------------------ *)
(** * Allocation *)

(** the slot balance of a growing step: holds without any invariant *)
Definition bal (t : tree) (a : alloc) (t' : tree) (a' : alloc) : Prop :=
  forall z, cnt (ids t') z + cnt (free a') z + cnt (seqN (alen a)) z
          = cnt (ids t) z + cnt (free a) z + cnt (seqN (alen a')) z.

(** the arena grows only when the free list is (and stays) empty *)
Definition grows (a a' : alloc) : Prop :=
  (alen a <= alen a')%N /\ (alen a' = alen a \/ free a' = []) /\ (free a = [] -> free a' = []).

Lemma grows_trans a b c : grows a b -> grows b c -> grows a c.
Proof.
  unfold grows. intros (A1 & A2 & A3) (B1 & B2 & B3). split; [lia|split].
  - destruct B2 as [B2|B2]; [|right; exact B2]. destruct A2 as [A2|A2].
    + left. congruence.
    + right. auto.
  - auto.
Qed.

Lemma grows_same a a' : alen a' = alen a -> free a' = free a -> grows a a'.
Proof. unfold grows. intros -> ->. split; [lia|split]; auto. Qed.

Lemma new_node_acct a hv n a' : new_node a hv = (n, a') ->
  (forall z, one n z + cnt (free a') z + cnt (seqN (alen a)) z
             = cnt (free a) z + cnt (seqN (alen a')) z) /\
  count a' = (count a + (if hv then 1 else 0))%Z /\ grows a a'.
Proof.
  unfold new_node, grows. destruct (free a) as [|j f] eqn:F; intros H; inversion H; subst; clear H;
    cbn [free alen count].
  - split; [|split].
    + intros z. rewrite seqN_succ, count_occ_app, cnt_cons, !cnt_nil. lia.
    + destruct hv; lia.
    + split; [lia|split]; auto.
  - split; [|split].
    + intros z. rewrite cnt_cons. lia.
    + destruct hv; lia.
    + split; [lia|split]; auto. intros; discriminate.
Qed.

Lemma bal_slots t a t' a' : bal t a t' a' -> slots_ok t a -> slots_ok t' a'.
Proof.
  intros B S. rewrite slots_ok_cnt in *. intros z. specialize (B z). specialize (S z). lia.
Qed.

Lemma grows_max t a t' a' :
  grows a a' -> slots_ok t a -> slots_ok t' a' -> alen a' = N.max (alen a) (nnodes t').
Proof.
  intros (G1 & G2 & _) S S'. apply slots_len in S. apply slots_len in S'. unfold nnodes.
  destruct G2 as [G2|G2].
  - lia.
  - rewrite G2 in S'. cbn [length] in S'. lia.
Qed.

(* ------------------------------------------------------------------------------------------ *)
(** * [ins], [vins] *)

Definition acct_post (G : Prop) (t : tree) (a : alloc) (t' : tree) (a' : alloc) : Prop :=
  bal t a t' a' /\ (G -> (count a' - count a = nentries t' - nentries t)%Z) /\ grows a a'.
Notation ins_post := (acct_post True).

Lemma acct_post_weaken (G : Prop) t a t' a' : ins_post t a t' a' -> acct_post G t a t' a'.
Proof. intros (B & C & Gr). split; [|split]; auto. Qed.

Ltac spec_z z :=
  repeat match goal with H : forall _ : N, _ |- _ => specialize (H z) end.

(** the three placement cases shared by [ins] and [vins] *)
Lemma place_leaf i p v l r (rt : bool) a n a1 q x :
  (if rt then r else l) = Leaf -> new_node a true = (n, a1) ->
  ins_post (Node i p v l r) a (with_child i p v l r rt (Node n q (Some x) Leaf Leaf)) a1.
Proof.
  intros Hc NN. destruct (new_node_acct _ _ _ _ NN) as (Nb & Nc & Ng).
  destruct (node_view i p v l r rt) as (Ai & _ & Ae). rewrite Hc in *.
  destruct (wc_view i p v l r rt (Node n q (Some x) Leaf Leaf)) as (Wi & _ & We).
  destruct (leaf_node_view n q x) as (Li & _ & Le).
  split; [|split].
  - intros z. spec_z z. cbn [ids] in *. rewrite cnt_nil in *. lia.
  - intros _. unfold nentries. cbn [entries length] in *. lia.
  - exact Ng.
Qed.

Lemma place_child i p v l r (rt : bool) a n a1 q x c (b : bool) :
  (if rt then r else l) = c -> new_node a true = (n, a1) ->
  ins_post (Node i p v l r) a
    (with_child i p v l r rt (if b then Node n q (Some x) Leaf c else Node n q (Some x) c Leaf)) a1.
Proof.
  intros Hc NN. destruct (new_node_acct _ _ _ _ NN) as (Nb & Nc & Ng).
  destruct (node_view i p v l r rt) as (Ai & _ & Ae). rewrite Hc in *.
  destruct (adopt_view n q x b c) as (Li & _ & Le).
  destruct (wc_view i p v l r rt (if b then Node n q (Some x) Leaf c else Node n q (Some x) c Leaf))
    as (Wi & _ & We).
  split; [|split].
  - intros z. spec_z z. lia.
  - intros _. unfold nentries. lia.
  - exact Ng.
Qed.

Lemma place_branch i p v l r (rt : bool) a b a1 n a2 bp q x c (s : bool) :
  (if rt then r else l) = c -> new_node a false = (b, a1) -> new_node a1 true = (n, a2) ->
  ins_post (Node i p v l r) a
    (with_child i p v l r rt
       (if s then Node b bp None c (Node n q (Some x) Leaf Leaf)
        else Node b bp None (Node n q (Some x) Leaf Leaf) c)) a2.
Proof.
  intros Hc NB NN.
  destruct (new_node_acct _ _ _ _ NB) as (Bb & Bc & Bg).
  destruct (new_node_acct _ _ _ _ NN) as (Nb & Nc & Ng).
  destruct (node_view i p v l r rt) as (Ai & _ & Ae). rewrite Hc in *.
  destruct (branch_view b bp n q x s c) as (Li & _ & Le).
  destruct (wc_view i p v l r rt
       (if s then Node b bp None c (Node n q (Some x) Leaf Leaf)
        else Node b bp None (Node n q (Some x) Leaf Leaf) c)) as (Wi & _ & We).
  split; [|split].
  - intros z. spec_z z. lia.
  - intros _. unfold nentries. lia.
  - eapply grows_trans; eauto.
Qed.

Lemma place_enter (G G' : Prop) i p v l r (rt : bool) a c c' a' :
  (if rt then r else l) = c -> (G' -> G) -> acct_post G c a c' a' ->
  acct_post G' (Node i p v l r) a (with_child i p v l r rt c') a'.
Proof.
  intros Hc HG (B & C & Gr).
  destruct (node_view i p v l r rt) as (Ai & _ & Ae). rewrite Hc in *.
  destruct (wc_view i p v l r rt c') as (Wi & _ & We).
  split; [|split].
  - intros z. specialize (B z). spec_z z. lia.
  - intros g. specialize (C (HG g)). unfold nentries in *. lia.
  - exact Gr.
Qed.

Lemma ins_acct t : forall q x a t' o a', ins t q x a = (t', o, a') -> ins_post t a t' a'.
Proof.
  induction t as [|i p v l IHl r IHr]; intros q x a t' o a' H; cbn [Trie.ins] in H.
  - inversion H; subst. split; [|split].
    + intros z. reflexivity.
    + intros _. lia.
    + apply grows_same; reflexivity.
  - destruct (peq p q) eqn:E.
    + inversion H; subst t' o a'; clear H. split; [|split].
      * intros z. destruct v; cbn [inc_if_none add_count ids free alen]; reflexivity.
      * intros _. unfold nentries. cbn [entries]. rewrite !app_length.
        destruct v; cbn [inc_if_none add_count count length]; lia.
      * apply grows_same; destruct v; reflexivity.
    + remember (to_right p q) as rt eqn:Hrt. clear Hrt.
      remember (if rt then r else l) as c eqn:Hc. symmetry in Hc.
      assert (IHc : forall q x a t' o a', ins c q x a = (t', o, a') -> ins_post c a t' a')
        by (subst c; destruct rt; assumption).
      clear IHl IHr.
      destruct c as [|ci cp cv cl cr].
      * destruct (new_node a true) as [n a1] eqn:NN. inversion H; subst; clear H.
        eapply place_leaf; eauto.
      * remember (Node ci cp cv cl cr) as c eqn:Hcn.
        destruct (contains cp q) eqn:C.
        -- destruct (ins c q x a) as [[c' o'] a''] eqn:R. inversion H; subst t' o a'; clear H.
           eapply (place_enter True True); eauto.
        -- destruct (contains q cp) eqn:C2.
           ++ destruct (new_node a true) as [n a1] eqn:NN. inversion H; subst t' o a'; clear H.
              eapply place_child; eauto.
           ++ destruct (new_node a false) as [b a1] eqn:NB.
              destruct (new_node a1 true) as [n a2] eqn:NN. inversion H; subst t' o a'; clear H.
              eapply place_branch; eauto.
Qed.

Lemma vins_acct t : forall q x a t' a', vins t q x a = (t', a') ->
  acct_post (get t q = None) t a t' a'.
Proof.
  induction t as [|i p v l IHl r IHr]; intros q x a t' a' H; cbn [Trie.vins] in H.
  - inversion H; subst. split; [|split].
    + intros z. reflexivity.
    + intros _. lia.
    + apply grows_same; reflexivity.
  - unfold Trie.get. cbn [Trie.get_node]. destruct (peq p q) eqn:E.
    + inversion H; subst t' a'; clear H. split; [|split].
      * intros z. reflexivity.
      * intros ->. unfold nentries. cbn [entries]. rewrite !app_length.
        cbn [add_count count length]. lia.
      * apply grows_same; reflexivity.
    + remember (to_right p q) as rt eqn:Hrt. clear Hrt.
      remember (if rt then r else l) as c eqn:Hc. symmetry in Hc.
      assert (IHc : forall q x a t' a', vins c q x a = (t', a') ->
                                        acct_post (get c q = None) c a t' a')
        by (subst c; destruct rt; assumption).
      clear IHl IHr.
      destruct c as [|ci cp cv cl cr].
      * destruct (new_node a true) as [n a1] eqn:NN. inversion H; subst; clear H.
        apply acct_post_weaken. eapply place_leaf; eauto.
      * destruct (contains cp q) eqn:C.
        -- remember (Node ci cp cv cl cr) as c eqn:Hcn.
           destruct (vins c q x a) as [c' a''] eqn:R. inversion H; subst t' a'; clear H.
           eapply place_enter; [exact Hc| |eapply IHc; exact R].
           intros g. exact g.
        -- remember (Node ci cp cv cl cr) as c eqn:Hcn.
           destruct (contains q cp) eqn:C2.
           ++ destruct (new_node a true) as [n a1] eqn:NN. inversion H; subst t' a'; clear H.
              apply acct_post_weaken. eapply place_child; eauto.
           ++ destruct (new_node a false) as [b a1] eqn:NB.
              destruct (new_node a1 true) as [n a2] eqn:NN. inversion H; subst t' a'; clear H.
              apply acct_post_weaken. eapply place_branch; eauto.
Qed.

(** ** Main theorems, group 1 *)

Theorem ins_slots_ok t q x a t' o a' :
  ins t q x a = (t', o, a') -> slots_ok t a -> slots_ok t' a'.
Proof. intros H. destruct (ins_acct _ _ _ _ _ _ _ H) as (B & _ & _). apply bal_slots. exact B. Qed.

Theorem ins_count t q x a t' o a' :
  ins t q x a = (t', o, a') -> (count a' - count a = nentries t' - nentries t)%Z.
Proof. intros H. destruct (ins_acct _ _ _ _ _ _ _ H) as (_ & C & _). apply C. exact I. Qed.

Theorem ins_alen_le t q x a t' o a' :
  ins t q x a = (t', o, a') -> (alen a <= alen a')%N.
Proof. intros H. destruct (ins_acct _ _ _ _ _ _ _ H) as (_ & _ & G). apply G. Qed.

Theorem ins_alen_max t q x a t' o a' :
  ins t q x a = (t', o, a') -> slots_ok t a -> alen a' = N.max (alen a) (nnodes t').
Proof.
  intros H S. destruct (ins_acct _ _ _ _ _ _ _ H) as (B & _ & G).
  eapply grows_max; eauto. eapply bal_slots; eauto.
Qed.

Theorem vins_slots_ok t q x a t' a' :
  vins t q x a = (t', a') -> slots_ok t a -> slots_ok t' a'.
Proof. intros H. destruct (vins_acct _ _ _ _ _ _ H) as (B & _ & _). apply bal_slots. exact B. Qed.

Theorem vins_count t q x a t' a' :
  vins t q x a = (t', a') -> get t q = None ->
  (count a' - count a = nentries t' - nentries t)%Z.
Proof. intros H. destruct (vins_acct _ _ _ _ _ _ H) as (_ & C & _). exact C. Qed.

Theorem vins_alen_le t q x a t' a' :
  vins t q x a = (t', a') -> (alen a <= alen a')%N.
Proof. intros H. destruct (vins_acct _ _ _ _ _ _ H) as (_ & _ & G). apply G. Qed.

Theorem vins_alen_max t q x a t' a' :
  vins t q x a = (t', a') -> slots_ok t a -> alen a' = N.max (alen a) (nnodes t').
Proof.
  intros H S. destruct (vins_acct _ _ _ _ _ _ H) as (B & _ & G).
  eapply grows_max; eauto. eapply bal_slots; eauto.
Qed.

(* ------------------------------------------------------------------------------------------ *)
(** * Group 2: in-place updates keep the slots *)

Theorem modify_ids t : forall q h, ids (modify t q h) = ids t.
Proof.
  induction t as [|i p v l IHl r IHr]; intros q h; cbn [Trie.modify]; [reflexivity|].
  destruct (peq p q).
  - destruct (h p v) as [p' v']. reflexivity.
  - destruct (to_right p q).
    + destruct r as [|ci cp cv cl cr]; [reflexivity|]. destruct (contains cp q); [|reflexivity].
      unfold Trie.with_child. cbn [ids]. rewrite IHr. reflexivity.
    + destruct l as [|ci cp cv cl cr]; [reflexivity|]. destruct (contains cp q); [|reflexivity].
      unfold Trie.with_child. cbn [ids]. rewrite IHl. reflexivity.
Qed.

(** the number of entries after [modify], in terms of the has-value flag of the node reached *)
Theorem modify_entries t : forall q h,
  match get_node t q with
  | None => modify t q h = t
  | Some (_, p, v) =>
    length (entries (modify t q h)) + ownn v = length (entries t) + ownn (snd (h p v))
  end.
Proof.
  induction t as [|i p v l IHl r IHr]; intros q h; cbn [Trie.modify Trie.get_node]; [reflexivity|].
  destruct (peq p q) eqn:E.
  - destruct (h p v) as [p' v'] eqn:Hh. cbn [entries snd]. rewrite !app_length.
    destruct v, v'; cbn [length ownn]; lia.
  - remember (to_right p q) as rt eqn:Hrt. clear Hrt.
    remember (if rt then r else l) as c eqn:Hc. symmetry in Hc.
    assert (IHc : forall q h,
      match get_node c q with
      | None => modify c q h = c
      | Some (_, p, v) =>
        length (entries (modify c q h)) + ownn v = length (entries c) + ownn (snd (h p v))
      end) by (subst c; destruct rt; assumption).
    clear IHl IHr.
    destruct c as [|ci cp cv cl cr]; [reflexivity|].
    destruct (contains cp q); [|reflexivity].
    remember (Node ci cp cv cl cr) as c eqn:Hcn.
    specialize (IHc q h). destruct (get_node c q) as [[[j pj] vj]|].
    + destruct (node_view i p v l r rt) as (_ & _ & Ae). rewrite Hc in Ae.
      destruct (wc_view i p v l r rt (modify c q h)) as (_ & _ & We). lia.
    + rewrite IHc. subst c. rewrite <- Hc. destruct rt; reflexivity.
Qed.

Theorem write_ids_ids (t : tree) ws : ids (write_ids t ws) = ids t.
Proof.
  induction t as [|i p v l IHl r IHr]; cbn [write_ids ids]; [reflexivity|].
  rewrite IHl, IHr. reflexivity.
Qed.

Theorem write_ids_entries (t : tree) ws : length (entries (write_ids t ws)) = length (entries t).
Proof.
  induction t as [|i p v l IHl r IHr]; cbn [write_ids entries]; [reflexivity|].
  rewrite !app_length, IHl, IHr. destruct v, (assoc_id ws i); reflexivity.
Qed.

Lemma set_tval_ids (t : tree) v : ids (set_tval t v) = ids t.
Proof. destruct t; reflexivity. Qed.

Theorem subst_ids pa : forall (t : tree) v, ids (subst t pa (set_tval (subtree t pa) v)) = ids t.
Proof.
  induction pa as [|b pa IH]; intros t v.
  - destruct t; reflexivity.
  - destruct t as [|i p w l r]; [reflexivity|]. cbn [subst subtree].
    destruct b; cbn [ids]; rewrite IH; reflexivity.
Qed.

(* ------------------------------------------------------------------------------------------ *)
(** * Removal-type steps *)

(** slots move between the tree and the free list only; the arena length is untouched; the
    counter follows the entries; the tree does not grow *)
Definition shrinks (t : tree) (a : alloc) (t' : tree) (a' : alloc) : Prop :=
  (forall z, cnt (ids t') z + cnt (free a') z = cnt (ids t) z + cnt (free a) z) /\
  alen a' = alen a /\
  (count a' - count a = nentries t' - nentries t)%Z /\
  length (ids t') <= length (ids t).

Lemma shrinks_refl t a : shrinks t a t a.
Proof. unfold shrinks. repeat split; try lia. Qed.

Lemma shrinks_trans t1 a1 t2 a2 t3 a3 :
  shrinks t1 a1 t2 a2 -> shrinks t2 a2 t3 a3 -> shrinks t1 a1 t3 a3.
Proof.
  intros (A1 & A2 & A3 & A4) (B1 & B2 & B3 & B4). split; [|split; [|split]]; try lia.
  intros z. specialize (A1 z). specialize (B1 z). lia.
Qed.

Lemma shrinks_child i p v l r (rt : bool) c c' a a' :
  (if rt then r else l) = c -> shrinks c a c' a' ->
  shrinks (Node i p v l r) a (with_child i p v l r rt c') a'.
Proof.
  intros Hc (A1 & A2 & A3 & A4).
  destruct (node_view i p v l r rt) as (Ni & Nl & Ne). rewrite Hc in *.
  destruct (wc_view i p v l r rt c') as (Wi & Wl & We).
  split; [|split; [|split]].
  - intros z. specialize (A1 z). spec_z z. lia.
  - exact A2.
  - unfold nentries in *. lia.
  - lia.
Qed.

Lemma shrinks_left i p v l r l' a a' :
  shrinks l a l' a' -> shrinks (Node i p v l r) a (Node i p v l' r) a'.
Proof. intros H. exact (shrinks_child i p v l r false l l' a a' eq_refl H). Qed.

Lemma shrinks_right i p v l r r' a a' :
  shrinks r a r' a' -> shrinks (Node i p v l r) a (Node i p v l r') a'.
Proof. intros H. exact (shrinks_child i p v l r true r r' a a' eq_refl H). Qed.

(** a value-less node with a single child is replaced by that child *)
Lemma shrinks_collapse i p (l r : tree) (rt : bool) a :
  (if rt then r else l) = Leaf ->
  shrinks (Node i p None l r) a (if rt then l else r) (push_free i a).
Proof.
  intros Hc. destruct (node_view i p None l r rt) as (Ni & Nl & Ne). rewrite Hc in *.
  unfold shrinks, nentries. cbn [ids entries length ownn] in *.
  split; [|split; [|split]].
  - intros z. spec_z z. cbn [push_free free]. rewrite cnt_cons. rewrite cnt_nil in Ni. lia.
  - reflexivity.
  - unfold nentries. cbn [push_free count]. lia.
  - lia.
Qed.

Lemma shrinks_perm t a t' a' :
  shrinks t a t' a' -> Permutation (ids t' ++ free a') (ids t ++ free a).
Proof.
  intros (A & _). apply perm_cnt. intros z. rewrite !count_occ_app. apply A.
Qed.

Lemma shrinks_slots t a t' a' : shrinks t a t' a' -> slots_ok t a -> slots_ok t' a'.
Proof.
  intros (A & B & _) S. rewrite slots_ok_cnt in *. intros z. rewrite B, <- S. apply A.
Qed.

Ltac shr_tac :=
  unfold shrinks, nentries;
  cbn [ids entries app push_free add_count dec_if free alen count];
  (split; [|split; [|split]]);
  [ let z := fresh "z" in
    intros z; repeat (rewrite count_occ_app || rewrite cnt_cons || rewrite cnt_nil); lia
  | reflexivity
  | cbn [length]; rewrite ?app_length; cbn [length]; rewrite ?app_length; lia
  | cbn [length]; rewrite ?app_length; cbn [length]; rewrite ?app_length; lia ].

Lemma remove_self_acct hp i p v l r a t' fl a' :
  remove_self hp i p v l r a = (t', fl, a') ->
  shrinks (Node i p v l r) a t' a' /\ (fl = true -> t' = Leaf) /\ (hp = false -> t' <> Leaf).
Proof.
  unfold Trie.remove_self.
  destruct l as [|li lp lv ll lr], r as [|ri rp rv rl rr], hp; cbn [is_node];
    intros H; inversion H; subst t' fl a'; clear H;
    (split; [destruct v; shr_tac | split; intros; discriminate || reflexivity]).
Qed.

Lemma absorb_acct hp i p v l r rt a t' a' :
  absorb hp i p v l r rt a = (t', a') ->
  shrinks (with_child i p v l r rt Leaf) a t' a' /\ (hp = false -> t' <> Leaf).
Proof.
  unfold Trie.absorb. destruct (hp && is_none v) eqn:B; intros H; inversion H; subst t' a'; clear H.
  - apply andb_prop in B. destruct B as [-> B]. destruct v; [discriminate|]. split; [|discriminate].
    unfold Trie.with_child. destruct rt.
    + apply (shrinks_collapse i p l Leaf true). reflexivity.
    + apply (shrinks_collapse i p Leaf r false). reflexivity.
  - split; [apply shrinks_refl|]. intros _. unfold Trie.with_child. destruct rt; discriminate.
Qed.

Lemma rem_acct t : forall hp q a t' fl o a', rem hp t q a = (t', fl, o, a') ->
  shrinks t a t' a' /\ (fl = true -> t' = Leaf) /\ (hp = false -> t <> Leaf -> t' <> Leaf).
Proof.
  induction t as [|i p v l IHl r IHr]; intros hp q a t' fl o a' H; cbn [Trie.rem] in H.
  - inversion H; subst. split; [apply shrinks_refl|]. split; [discriminate|]. intros _ X; exact X.
  - destruct (peq p q) eqn:E.
    + destruct (remove_self hp i p v l r a) as [[t1 fl1] a1] eqn:RS.
      inversion H; subst t' fl o a'; clear H.
      destruct (remove_self_acct _ _ _ _ _ _ _ _ _ _ RS) as (A & B & C).
      split; [exact A|]. split; [exact B|]. intros Hp _. apply C. exact Hp.
    + remember (to_right p q) as rt eqn:Hrt. clear Hrt.
      remember (if rt then r else l) as c eqn:Hc. symmetry in Hc.
      assert (IHc : forall hp q a t' fl o a', rem hp c q a = (t', fl, o, a') ->
        shrinks c a t' a' /\ (fl = true -> t' = Leaf) /\ (hp = false -> c <> Leaf -> t' <> Leaf))
        by (subst c; destruct rt; assumption).
      clear IHl IHr.
      assert (Hsame : shrinks (Node i p v l r) a (Node i p v l r) a /\
                      (false = true -> Node i p v l r = Leaf) /\
                      (hp = false -> Node i p v l r <> Leaf -> Node i p v l r <> Leaf)).
      { split; [apply shrinks_refl|]. split; [discriminate|]. intros _ X; exact X. }
      destruct c as [|ci cp cv cl cr].
      * inversion H; subst t' fl o a'; clear H. exact Hsame.
      * destruct (contains cp q) eqn:C.
        2:{ inversion H; subst t' fl o a'; clear H. exact Hsame. }
        clear Hsame.
        remember (Node ci cp cv cl cr) as c eqn:Hcn.
        destruct (rem true c q a) as [[[c' fl1] o1] a1] eqn:R.
        destruct (IHc _ _ _ _ _ _ _ R) as (A & B & _).
        pose proof (shrinks_child i p v l r rt c c' a a1 Hc A) as A'.
        destruct fl1.
        -- destruct (absorb hp i p v l r rt a1) as [t2 a2] eqn:AB.
           inversion H; subst t' fl o a'; clear H.
           rewrite (B eq_refl) in A'.
           destruct (absorb_acct _ _ _ _ _ _ _ _ _ _ AB) as (D & F).
           split; [eapply shrinks_trans; eauto|]. split; [discriminate|].
           intros Hp _. apply F. exact Hp.
        -- inversion H; subst t' fl o a'; clear H.
           split; [exact A'|]. split; [discriminate|].
           intros _ _. unfold Trie.with_child. destruct rt; discriminate.
Qed.

(** ** Main theorems, group 3 *)

Theorem remove_self_storage hp i p v l r a t' fl a' :
  remove_self hp i p v l r a = (t', fl, a') ->
  Permutation (ids t' ++ free a') (ids (Node i p v l r) ++ free a) /\
  alen a' = alen a /\
  (count a' - count a = nentries t' - nentries (Node i p v l r))%Z /\
  length (ids t') <= length (ids (Node i p v l r)) /\
  (fl = true -> t' = Leaf) /\ (hp = false -> t' <> Leaf).
Proof.
  intros H. destruct (remove_self_acct _ _ _ _ _ _ _ _ _ _ H) as (A & B & C).
  pose proof (shrinks_perm _ _ _ _ A) as P. destruct A as (_ & A2 & A3 & A4). tauto.
Qed.

Theorem absorb_storage hp i p v l r rt a t' a' :
  absorb hp i p v l r rt a = (t', a') ->
  let t0 := with_child i p v l r rt Leaf in
  Permutation (ids t' ++ free a') (ids t0 ++ free a) /\
  alen a' = alen a /\
  (count a' - count a = nentries t' - nentries t0)%Z /\
  length (ids t') <= length (ids t0) /\
  (hp = false -> t' <> Leaf).
Proof.
  intros H t0. destruct (absorb_acct _ _ _ _ _ _ _ _ _ _ H) as (A & C).
  pose proof (shrinks_perm _ _ _ _ A) as P. destruct A as (_ & A2 & A3 & A4). tauto.
Qed.

Theorem rem_storage hp t q a t' fl o a' :
  rem hp t q a = (t', fl, o, a') ->
  Permutation (ids t' ++ free a') (ids t ++ free a) /\
  alen a' = alen a /\
  (count a' - count a = nentries t' - nentries t)%Z /\
  length (ids t') <= length (ids t) /\
  (fl = true -> t' = Leaf) /\ (hp = false -> t <> Leaf -> t' <> Leaf).
Proof.
  intros H. destruct (rem_acct _ _ _ _ _ _ _ _ H) as (A & B & C).
  pose proof (shrinks_perm _ _ _ _ A) as P. destruct A as (_ & A2 & A3 & A4). tauto.
Qed.

Theorem rem_slots_ok hp t q a t' fl o a' :
  rem hp t q a = (t', fl, o, a') -> slots_ok t a -> slots_ok t' a'.
Proof. intros H. destruct (rem_acct _ _ _ _ _ _ _ _ H) as (A & _). eapply shrinks_slots; eauto. Qed.

(* ------------------------------------------------------------------------------------------ *)
(** * Group 4: [free_all], [rc] *)

Lemma free_all_acct t : forall a,
  (forall z, cnt (free (free_all t a)) z = cnt (ids t) z + cnt (free a) z) /\
  alen (free_all t a) = alen a /\ count (free_all t a) = (count a - nentries t)%Z.
Proof.
  induction t as [|i p v l IHl r IHr]; intros a; cbn [Trie.free_all].
  - unfold nentries. cbn. split; [|split]; try reflexivity. lia.
  - destruct (IHl (free_all r (push_free i (dec_if v a)))) as (L1 & L2 & L3).
    destruct (IHr (push_free i (dec_if v a))) as (R1 & R2 & R3).
    split; [|split].
    + intros z. rewrite L1, R1. cbn [ids push_free free]. rewrite !cnt_cons, count_occ_app.
      destruct v; cbn [dec_if add_count free]; lia.
    + rewrite L2, R2. destruct v; reflexivity.
    + rewrite L3, R3. unfold nentries. cbn [entries]. rewrite !app_length.
      destruct v; cbn [dec_if add_count push_free count length]; lia.
Qed.

Lemma free_all_shrinks t a : shrinks t a Leaf (free_all t a).
Proof.
  destruct (free_all_acct t a) as (A & B & C). split; [|split; [|split]].
  - intros z. rewrite A. cbn [ids]. rewrite cnt_nil. lia.
  - exact B.
  - rewrite C. unfold nentries. cbn [entries length]. lia.
  - cbn [ids length]. lia.
Qed.

Lemma rc_acct t : forall q a t' a', rc t q a = (t', a') -> shrinks t a t' a'.
Proof.
  induction t as [|i p v l IHl r IHr]; intros q a t' a' H; cbn [Trie.rc] in H.
  - inversion H; subst. apply shrinks_refl.
  - destruct (peq p q) eqn:E.
    + inversion H; subst. apply shrinks_refl.
    + remember (to_right p q) as rt eqn:Hrt. clear Hrt.
      remember (if rt then r else l) as c eqn:Hc. symmetry in Hc.
      assert (IHc : forall q a t' a', rc c q a = (t', a') -> shrinks c a t' a')
        by (subst c; destruct rt; assumption).
      clear IHl IHr.
      destruct c as [|ci cp cv cl cr].
      * inversion H; subst. apply shrinks_refl.
      * remember (Node ci cp cv cl cr) as c eqn:Hcn.
        destruct (contains cp q) eqn:C.
        -- destruct (peq cp q) eqn:E2.
           ++ inversion H; subst t' a'; clear H.
              eapply shrinks_child; [exact Hc|]. apply free_all_shrinks.
           ++ destruct (rc c q a) as [c' a1] eqn:R. inversion H; subst t' a'; clear H.
              eapply shrinks_child; [exact Hc|]. eapply IHc; eauto.
        -- destruct (contains q cp) eqn:C2.
           ++ inversion H; subst t' a'; clear H.
              eapply shrinks_child; [exact Hc|]. apply free_all_shrinks.
           ++ inversion H; subst. apply shrinks_refl.
Qed.

(** ** Main theorems, group 4 *)

Theorem free_all_storage t a :
  Permutation (free (free_all t a)) (ids t ++ free a) /\
  alen (free_all t a) = alen a /\
  count (free_all t a) = (count a - nentries t)%Z.
Proof.
  destruct (free_all_acct t a) as (A & B & C). split; [|split]; auto.
  apply perm_cnt. intros z. rewrite count_occ_app. apply A.
Qed.

Theorem rc_storage t q a t' a' :
  rc t q a = (t', a') ->
  Permutation (ids t' ++ free a') (ids t ++ free a) /\
  alen a' = alen a /\
  (count a' - count a = nentries t' - nentries t)%Z /\
  length (ids t') <= length (ids t).
Proof.
  intros H. pose proof (rc_acct _ _ _ _ _ H) as A.
  pose proof (shrinks_perm _ _ _ _ A) as P. destruct A as (_ & A2 & A3 & A4). tauto.
Qed.

Theorem rc_slots_ok t q a t' a' : rc t q a = (t', a') -> slots_ok t a -> slots_ok t' a'.
Proof. intros H. eapply shrinks_slots. eapply rc_acct; eauto. Qed.

(* ------------------------------------------------------------------------------------------ *)
(** * Group 5: [ret] — any predicate, any outcome (a panicking callback included) *)

Lemma ret_acct f t : forall hp s t' st s', ret f hp t s = (t', st, s') ->
  shrinks t (fst s) t' (fst s') /\ (st = RDone true -> t' = Leaf) /\
  (hp = false -> t <> Leaf -> t' <> Leaf).
Proof.
  induction t as [|i p v l IHl r IHr]; intros hp s t' st s' H; cbn [Trie.ret] in H.
  - inversion H; subst. split; [apply shrinks_refl|]. split; [discriminate|]. intros _ X; exact X.
  - destruct (ret f true l s) as [[l' sl] s1] eqn:RL.
    destruct (IHl _ _ _ _ _ RL) as (AL & BL & _).
    pose proof (shrinks_left i p v l r l' _ _ AL) as AL'.
    destruct sl as [fl|].
    2:{ inversion H; subst t' st s'; clear H. split; [exact AL'|]. split; discriminate. }
    destruct (fl && (hp && is_none v)) eqn:B1.
    + (* collapsed by the removal of the left child *)
      apply andb_prop in B1. destruct B1 as [-> B1]. apply andb_prop in B1. destruct B1 as [-> B1].
      destruct v; [discriminate|]. rewrite (BL eq_refl) in AL'.
      destruct (IHr _ _ _ _ _ H) as (AR & BR & _). cbn [fst] in AR.
      split; [|split; [exact BR|discriminate]].
      eapply shrinks_trans; [exact AL'|]. eapply shrinks_trans; [|exact AR].
      apply (shrinks_collapse i p Leaf r false). reflexivity.
    + destruct (ret f true r s1) as [[r' sr] s2] eqn:RR.
      destruct (IHr _ _ _ _ _ RR) as (AR & BR & _).
      pose proof (shrinks_right i p v l' r r' _ _ AR) as AR'.
      pose proof (shrinks_trans _ _ _ _ _ _ AL' AR') as A2.
      destruct sr as [fr|].
      2:{ inversion H; subst t' st s'; clear H. split; [exact A2|]. split; discriminate. }
      destruct (fr && (hp && is_none v)) eqn:B2.
      * (* collapsed by the removal of the right child *)
        apply andb_prop in B2. destruct B2 as [-> B2]. apply andb_prop in B2. destruct B2 as [-> B2].
        destruct v; [discriminate|]. rewrite (BR eq_refl) in A2.
        inversion H; subst t' st s'; clear H. cbn [fst].
        split; [|split; discriminate].
        eapply shrinks_trans; [exact A2|].
        apply (shrinks_collapse i p l' Leaf true). reflexivity.
      * destruct v as [x|].
        -- destruct (f (length (snd s2)) p x) as [[|]|] eqn:F.
           ++ inversion H; subst t' st s'; clear H. cbn [fst].
              split; [exact A2|]. split; discriminate.
           ++ destruct (remove_self hp i p (Some x) l' r' (fst s2)) as [[t1 fl1] a1] eqn:RS.
              inversion H; subst t' st s'; clear H. cbn [fst].
              destruct (remove_self_acct _ _ _ _ _ _ _ _ _ _ RS) as (A & B & C).
              split; [eapply shrinks_trans; eauto|]. split.
              ** intros X. inversion X; subst. apply B. reflexivity.
              ** intros Hp _. apply C. exact Hp.
           ++ inversion H; subst t' st s'; clear H.
              split; [exact A2|]. split; discriminate.
        -- inversion H; subst t' st s'; clear H.
           split; [exact A2|]. split; discriminate.
Qed.

(** ** Main theorem, group 5 *)

Theorem ret_storage f hp t a log t' st a' log' :
  ret f hp t (a, log) = (t', st, (a', log')) ->
  Permutation (ids t' ++ free a') (ids t ++ free a) /\
  alen a' = alen a /\
  (count a' - count a = nentries t' - nentries t)%Z /\
  length (ids t') <= length (ids t) /\
  (st = RDone true -> t' = Leaf) /\ (hp = false -> t <> Leaf -> t' <> Leaf).
Proof.
  intros H. destruct (ret_acct _ _ _ _ _ _ _ H) as (A & B & C). cbn [fst] in A.
  pose proof (shrinks_perm _ _ _ _ A) as P. destruct A as (_ & A2 & A3 & A4). tauto.
Qed.

Theorem ret_slots_ok f hp t a log t' st a' log' :
  ret f hp t (a, log) = (t', st, (a', log')) -> slots_ok t a -> slots_ok t' a'.
Proof.
  intros H. destruct (ret_acct _ _ _ _ _ _ _ H) as (A & _). cbn [fst] in A.
  eapply shrinks_slots; eauto.
Qed.

(* ------------------------------------------------------------------------------------------ *)
(** * Group 6: map-level corollaries *)

Lemma shrinks_cinv t a t' a' : shrinks t a t' a' -> count a = nentries t -> count a' = nentries t'.
Proof. intros (_ & _ & C & _) H. lia. Qed.

Theorem slots_nodup t a : slots_ok t a -> NoDup (ids t).
Proof.
  intros S. rewrite slots_ok_cnt in S. apply (NoDup_count_occ N.eq_dec). intros z.
  specialize (S z). pose proof (NoDup_seqN (alen a)) as ND.
  rewrite (NoDup_count_occ N.eq_dec) in ND. specialize (ND z). lia.
Qed.

Theorem slots_free_nodup t a : slots_ok t a -> NoDup (free a).
Proof.
  intros S. rewrite slots_ok_cnt in S. apply (NoDup_count_occ N.eq_dec). intros z.
  specialize (S z). pose proof (NoDup_seqN (alen a)) as ND.
  rewrite (NoDup_count_occ N.eq_dec) in ND. specialize (ND z). lia.
Qed.

Theorem slots_disjoint t a : slots_ok t a -> forall i, In i (ids t) -> ~ In i (free a).
Proof.
  intros S i H1 H2. rewrite slots_ok_cnt in S. specialize (S i).
  pose proof (NoDup_seqN (alen a)) as ND.
  rewrite (NoDup_count_occ N.eq_dec) in ND. specialize (ND i).
  apply (count_occ_In N.eq_dec) in H1. apply (count_occ_In N.eq_dec) in H2. lia.
Qed.

(** every slot of the tree or of the free list is below the arena length, and conversely *)
Theorem slots_range t a : slots_ok t a ->
  forall i, (i < alen a)%N <-> In i (ids t) \/ In i (free a).
Proof.
  intros S i. rewrite <- in_seqN, <- in_app_iff. split; apply Permutation_in.
  - apply Permutation_sym. exact S.
  - exact S.
Qed.

Theorem alen_bounded m : minv m ->
  (nnodes (root m) <= alen (al m))%N /\
  (alen (al m) = nnodes (root m) + N.of_nat (length (free (al m))))%N.
Proof. unfold minv, nnodes. intros S. apply slots_len in S. lia. Qed.

Theorem minv_empty : minv empty.
Proof. unfold minv, slots_ok. cbn. apply Permutation_refl. Qed.

Theorem cinv_empty : cinv empty.
Proof. reflexivity. Qed.

(** ** [insert] *)

Theorem insert_minv m q x : minv m -> minv (fst (insert m q x)).
Proof.
  unfold minv, Trie.insert. destruct (ins (root m) q x (al m)) as [[t o] a] eqn:H. cbn [fst root al].
  eapply ins_slots_ok; eauto.
Qed.

Theorem insert_cinv m q x : cinv m -> cinv (fst (insert m q x)).
Proof.
  unfold cinv, Trie.insert. destruct (ins (root m) q x (al m)) as [[t o] a] eqn:H. cbn [fst root al].
  pose proof (ins_count _ _ _ _ _ _ _ H). lia.
Qed.

Theorem insert_alen m q x : minv m ->
  alen (al (fst (insert m q x))) = N.max (alen (al m)) (nnodes (root (fst (insert m q x)))).
Proof.
  unfold minv, Trie.insert. destruct (ins (root m) q x (al m)) as [[t o] a] eqn:H. cbn [fst root al].
  eapply ins_alen_max; eauto.
Qed.

Theorem insert_alen_le m q x : (alen (al m) <= alen (al (fst (insert m q x))))%N.
Proof.
  unfold Trie.insert. destruct (ins (root m) q x (al m)) as [[t o] a] eqn:H. cbn [fst root al].
  eapply ins_alen_le; eauto.
Qed.

(** ** [remove] *)

Lemma remove_shrinks m q : shrinks (root m) (al m) (root (fst (remove m q))) (al (fst (remove m q))).
Proof.
  unfold Trie.remove. destruct (rem false (root m) q (al m)) as [[[t fl] o] a] eqn:H.
  cbn [fst root al]. eapply rem_acct; eauto.
Qed.

Theorem remove_minv m q : minv m -> minv (fst (remove m q)).
Proof. unfold minv. eapply shrinks_slots. apply remove_shrinks. Qed.

Theorem remove_cinv m q : cinv m -> cinv (fst (remove m q)).
Proof. unfold cinv. eapply shrinks_cinv. apply remove_shrinks. Qed.

Theorem remove_alen m q : alen (al (fst (remove m q))) = alen (al m).
Proof. apply (remove_shrinks m q). Qed.

Theorem remove_nnodes m q : (nnodes (root (fst (remove m q))) <= nnodes (root m))%N.
Proof. pose proof (remove_shrinks m q) as (_ & _ & _ & L). unfold nnodes. lia. Qed.

(** the root is never unlinked *)
Theorem remove_root m q : root m <> Leaf -> root (fst (remove m q)) <> Leaf.
Proof.
  unfold Trie.remove. destruct (rem false (root m) q (al m)) as [[[t fl] o] a] eqn:H.
  cbn [fst root]. destruct (rem_acct _ _ _ _ _ _ _ _ H) as (_ & _ & C). apply C. reflexivity.
Qed.

(** ** [remove_keep_tree], [occ_remove], [occ_insert], [update_value] *)

Lemma get_node_get t q : get t q = match get_node t q with Some (_, _, v) => v | None => None end.
Proof. reflexivity. Qed.

Lemma dec_if_free {A} (o : option A) a : free (dec_if o a) = free a.
Proof. destruct o; reflexivity. Qed.
Lemma dec_if_alen {A} (o : option A) a : alen (dec_if o a) = alen a.
Proof. destruct o; reflexivity. Qed.
Lemma dec_if_count {A} (o : option A) a : count (dec_if o a) = (count a - Z.of_nat (ownn o))%Z.
Proof. destruct o; cbn [dec_if add_count count ownn]; lia. Qed.

Lemma slots_ok_ext t a t' a' :
  ids t' = ids t -> free a' = free a -> alen a' = alen a -> slots_ok t a -> slots_ok t' a'.
Proof. unfold slots_ok. intros -> -> ->. exact (fun H => H). Qed.

Theorem remove_keep_tree_minv m q : minv m -> minv (fst (remove_keep_tree m q)).
Proof.
  unfold minv, Trie.remove_keep_tree. cbn [fst root al]. apply slots_ok_ext.
  - apply modify_ids.
  - apply dec_if_free.
  - apply dec_if_alen.
Qed.

(** taking the value out of the node reached: the counter and the entries move together *)
Lemma take_value_count t q a :
  (count (dec_if (get t q) a) - count a
   = nentries (modify t q (fun p _ => (p, None))) - nentries t)%Z.
Proof.
  rewrite dec_if_count, get_node_get. unfold nentries.
  pose proof (modify_entries t q (fun p _ => (p, None))) as M.
  destruct (get_node t q) as [[[j pj] vj]|].
  - cbn [snd ownn] in M. lia.
  - rewrite M. cbn [ownn]. lia.
Qed.

Theorem remove_keep_tree_cinv m q : cinv m -> cinv (fst (remove_keep_tree m q)).
Proof.
  unfold cinv, Trie.remove_keep_tree. cbn [fst root al]. intros H.
  pose proof (take_value_count (root m) q (al m)). lia.
Qed.

Theorem remove_keep_tree_alen m q : alen (al (fst (remove_keep_tree m q))) = alen (al m).
Proof. unfold Trie.remove_keep_tree. cbn [fst al]. apply dec_if_alen. Qed.

Theorem occ_remove_minv m q : minv m -> minv (fst (occ_remove m q)).
Proof. exact (remove_keep_tree_minv m q). Qed.

(** holds for every handle, occupied or not; with [get (root m) q = Some y] both the counter and
    the number of entries drop by one ([occ_remove_len]) *)
Theorem occ_remove_cinv m q : cinv m -> cinv (fst (occ_remove m q)).
Proof. exact (remove_keep_tree_cinv m q). Qed.

Theorem occ_remove_len m q y : get (root m) q = Some y ->
  count (al (fst (occ_remove m q))) = (count (al m) - 1)%Z /\
  nentries (root (fst (occ_remove m q))) = (nentries (root m) - 1)%Z.
Proof.
  intros G. unfold Trie.occ_remove. cbn [fst root al].
  pose proof (take_value_count (root m) q (al m)) as T. rewrite G in *.
  cbn [dec_if add_count count] in *. lia.
Qed.

Theorem occ_remove_alen m q : alen (al (fst (occ_remove m q))) = alen (al m).
Proof. exact (remove_keep_tree_alen m q). Qed.

Theorem occ_insert_minv m q x : minv m -> minv (fst (occ_insert m q x)).
Proof.
  unfold minv, Trie.occ_insert. cbn [fst root al]. apply slots_ok_ext; try reflexivity.
  apply modify_ids.
Qed.

(** replacing an existing value leaves the number of entries unchanged.  The hypothesis is
    needed: on a value-less node the write creates an entry but the counter is not touched. *)
Theorem occ_insert_entries t q x : get t q <> None ->
  nentries (modify t q (fun _ _ => (q, Some x))) = nentries t.
Proof.
  rewrite get_node_get. unfold nentries. intros G.
  pose proof (modify_entries t q (fun _ _ => (q, Some x))) as M.
  destruct (get_node t q) as [[[j pj] vj]|]; [|congruence].
  destruct vj; [|congruence]. cbn [snd ownn] in M. lia.
Qed.

Theorem occ_insert_cinv m q x : get (root m) q <> None -> cinv m -> cinv (fst (occ_insert m q x)).
Proof.
  unfold cinv, Trie.occ_insert. cbn [fst root al]. intros G H.
  rewrite occ_insert_entries; assumption.
Qed.

Theorem occ_insert_alen m q x : alen (al (fst (occ_insert m q x))) = alen (al m).
Proof. reflexivity. Qed.

Theorem update_value_minv m q g : minv m -> minv (update_value m q g).
Proof.
  unfold minv, Trie.update_value. cbn [root al]. apply slots_ok_ext; try reflexivity.
  apply modify_ids.
Qed.

Theorem update_value_cinv m q g : cinv m -> cinv (update_value m q g).
Proof.
  unfold cinv, Trie.update_value, nentries. cbn [root al]. intros H.
  pose proof (modify_entries (root m) q (fun p v => (p, option_map g v))) as M.
  destruct (get_node (root m) q) as [[[j pj] vj]|].
  - destruct vj; cbn [snd option_map ownn] in M; lia.
  - rewrite M. exact H.
Qed.

Theorem update_value_alen m q g : alen (al (update_value m q g)) = alen (al m).
Proof. reflexivity. Qed.

(** ** [clear], [remove_children] *)

Theorem clear_minv m : minv (clear m).
Proof. exact minv_empty. Qed.

Theorem clear_cinv m : cinv (clear m).
Proof. exact cinv_empty. Qed.

Theorem remove_children_minv m q : minv m -> minv (remove_children m q).
Proof.
  unfold Trie.remove_children. destruct (plen q =? 0)%N; [intros _; apply clear_minv|].
  unfold minv. destruct (rc (root m) q (al m)) as [t a] eqn:H. cbn [root al].
  eapply rc_slots_ok; eauto.
Qed.

Theorem remove_children_cinv m q : cinv m -> cinv (remove_children m q).
Proof.
  unfold Trie.remove_children. destruct (plen q =? 0)%N; [intros _; apply clear_cinv|].
  unfold cinv. destruct (rc (root m) q (al m)) as [t a] eqn:H. cbn [root al].
  eapply shrinks_cinv. eapply rc_acct; eauto.
Qed.

(** [clear] resets the arena to the single root slot; otherwise the length is untouched *)
Theorem remove_children_alen m q :
  alen (al (remove_children m q)) = if (plen q =? 0)%N then 1%N else alen (al m).
Proof.
  unfold Trie.remove_children. destruct (plen q =? 0)%N; [reflexivity|].
  destruct (rc (root m) q (al m)) as [t a] eqn:H. cbn [root al].
  apply (rc_acct _ _ _ _ _ H).
Qed.

(** ** [retain]: any predicate, any outcome *)

Lemma retain_shrinks f m :
  shrinks (root m) (al m) (root (fst (fst (retain f m)))) (al (fst (fst (retain f m)))).
Proof.
  unfold Trie.retain. destruct (ret f false (root m) (al m, [])) as [[t st] [a lg]] eqn:H.
  cbn [fst root al]. apply (ret_acct _ _ _ _ _ _ _ H).
Qed.

Theorem retain_minv f m : minv m -> minv (fst (fst (retain f m))).
Proof. unfold minv. eapply shrinks_slots. apply retain_shrinks. Qed.

Theorem retain_cinv f m : cinv m -> cinv (fst (fst (retain f m))).
Proof. unfold cinv. eapply shrinks_cinv. apply retain_shrinks. Qed.

Theorem retain_alen f m : alen (al (fst (fst (retain f m)))) = alen (al m).
Proof. apply (retain_shrinks f m). Qed.

Theorem retain_root f m : root m <> Leaf -> root (fst (fst (retain f m))) <> Leaf.
Proof.
  unfold Trie.retain. destruct (ret f false (root m) (al m, [])) as [[t st] [a lg]] eqn:H.
  cbn [fst root]. destruct (ret_acct _ _ _ _ _ _ _ H) as (_ & _ & C). apply C. reflexivity.
Qed.

(** ** [vacant_insert] *)

Theorem vacant_insert_minv m q x : minv m -> minv (vacant_insert m q x).
Proof.
  unfold minv, Trie.vacant_insert. destruct (vins (root m) q x (al m)) as [t a] eqn:H.
  cbn [root al]. eapply vins_slots_ok; eauto.
Qed.

Theorem vacant_insert_cinv m q x :
  get (root m) q = None -> cinv m -> cinv (vacant_insert m q x).
Proof.
  unfold cinv, Trie.vacant_insert. destruct (vins (root m) q x (al m)) as [t a] eqn:H.
  cbn [root al]. intros G C. pose proof (vins_count _ _ _ _ _ _ H G). lia.
Qed.

Theorem vacant_insert_alen m q x : minv m ->
  alen (al (vacant_insert m q x)) = N.max (alen (al m)) (nnodes (root (vacant_insert m q x))).
Proof.
  unfold minv, Trie.vacant_insert. destruct (vins (root m) q x (al m)) as [t a] eqn:H.
  cbn [root al]. eapply vins_alen_max; eauto.
Qed.

(** ** [from_list] *)

Lemma fold_insert_inv (l : list (pfx * V)) : forall m, minv m -> cinv m ->
  let m' := fold_left (fun m e => fst (insert m (fst e) (snd e))) l m in minv m' /\ cinv m'.
Proof.
  induction l as [|e l IH]; intros m M C; cbn [fold_left].
  - split; assumption.
  - apply IH; [apply insert_minv|apply insert_cinv]; assumption.
Qed.

Theorem from_list_minv l : minv (from_list l).
Proof. apply (fold_insert_inv l empty minv_empty cinv_empty). Qed.

Theorem from_list_cinv l : cinv (from_list l).
Proof. apply (fold_insert_inv l empty minv_empty cinv_empty). Qed.

(* ------------------------------------------------------------------------------------------ *)
(** * Group 7: churn — freed slots are reused before the arena grows *)

Theorem reuse_before_grow m q x : minv m ->
  let m' := fst (insert m q x) in
  (nnodes (root m') <= alen (al m))%N -> alen (al m') = alen (al m).
Proof. intros M m' H. subst m'. rewrite insert_alen by exact M. lia. Qed.

(** in particular: an insertion with a non-empty free list that needs one slot (every placement
    but NewBranch), or with two free slots, never grows the arena *)
Theorem reuse_free_slots m q x : minv m ->
  let m' := fst (insert m q x) in
  (nnodes (root m') <= nnodes (root m) + N.of_nat (length (free (al m))))%N ->
  alen (al m') = alen (al m).
Proof.
  intros M m' H. apply reuse_before_grow; [exact M|].
  destruct (alen_bounded m M) as [_ E]. fold m'. lia.
Qed.

Theorem clear_alen m : alen (al (clear m)) = 1%N.
Proof. reflexivity. Qed.

(** ** Churn: over any sequence of insertions and removals the arena length is exactly the
    high-water mark of the number of live nodes *)

Inductive op :=
| OIns (q : pfx) (x : V)
| ORem (q : pfx)
| ORemKeep (q : pfx)
| ORetain (f : nat -> pfx -> V -> option bool).

Definition step (o : op) (m : pmap) : pmap :=
  match o with
  | OIns q x => fst (insert m q x)
  | ORem q => fst (remove m q)
  | ORemKeep q => fst (remove_keep_tree m q)
  | ORetain f => fst (fst (retain f m))
  end.

Fixpoint run_ops (ops : list op) (m : pmap) : pmap :=
  match ops with [] => m | o :: ops' => run_ops ops' (step o m) end.

(** the largest number of nodes of any state visited *)
Fixpoint peak (ops : list op) (m : pmap) : N :=
  match ops with
  | [] => nnodes (root m)
  | o :: ops' => N.max (nnodes (root m)) (peak ops' (step o m))
  end.

Lemma step_minv o m : minv m -> minv (step o m).
Proof.
  destruct o; cbn [step].
  - apply insert_minv.
  - apply remove_minv.
  - apply remove_keep_tree_minv.
  - apply retain_minv.
Qed.

Lemma step_cinv o m : cinv m -> cinv (step o m).
Proof.
  destruct o; cbn [step].
  - apply insert_cinv.
  - apply remove_cinv.
  - apply remove_keep_tree_cinv.
  - apply retain_cinv.
Qed.

Lemma peak_ge ops m : (nnodes (root m) <= peak ops m)%N.
Proof. destruct ops; cbn [peak]; lia. Qed.

Theorem run_ops_inv ops : forall m, minv m -> cinv m -> minv (run_ops ops m) /\ cinv (run_ops ops m).
Proof.
  induction ops as [|o ops IH]; intros m M C; cbn [run_ops].
  - split; assumption.
  - apply IH; [apply step_minv|apply step_cinv]; assumption.
Qed.

Theorem churn_high_water ops : forall m, minv m ->
  alen (al (run_ops ops m)) = N.max (alen (al m)) (peak ops m).
Proof.
  induction ops as [|o ops IH]; intros m M; cbn [run_ops peak].
  - destruct (alen_bounded m M) as [B _]. lia.
  - rewrite (IH _ (step_minv o m M)).
    destruct (alen_bounded m M) as [B _].
    pose proof (peak_ge ops (step o m)) as P.
    assert (E : alen (al (step o m)) = alen (al m) \/
                alen (al (step o m)) = N.max (alen (al m)) (nnodes (root (step o m)))).
    { destruct o; cbn [step].
      - right. apply insert_alen. exact M.
      - left. apply remove_alen.
      - left. apply remove_keep_tree_alen.
      - left. apply retain_alen. }
    destruct E as [E|E]; rewrite E; lia.
Qed.

Corollary churn_from_empty ops : alen (al (run_ops ops empty)) = peak ops empty.
Proof.
  rewrite (churn_high_water ops empty minv_empty).
  pose proof (peak_ge ops empty) as P. cbn in P |- *. lia.
Qed.

End SL.

Print Assumptions ins_slots_ok.
Print Assumptions ins_count.
Print Assumptions ins_alen_max.
Print Assumptions ins_alen_le.
Print Assumptions vins_slots_ok.
Print Assumptions vins_count.
Print Assumptions vins_alen_max.
Print Assumptions vins_alen_le.
Print Assumptions modify_ids.
Print Assumptions modify_entries.
Print Assumptions write_ids_ids.
Print Assumptions write_ids_entries.
Print Assumptions subst_ids.
Print Assumptions remove_self_storage.
Print Assumptions absorb_storage.
Print Assumptions rem_storage.
Print Assumptions rem_slots_ok.
Print Assumptions free_all_storage.
Print Assumptions rc_storage.
Print Assumptions rc_slots_ok.
Print Assumptions ret_storage.
Print Assumptions ret_slots_ok.
Print Assumptions slots_nodup.
Print Assumptions slots_free_nodup.
Print Assumptions slots_disjoint.
Print Assumptions slots_range.
Print Assumptions alen_bounded.
Print Assumptions minv_empty.
Print Assumptions cinv_empty.
Print Assumptions insert_minv.
Print Assumptions insert_cinv.
Print Assumptions insert_alen.
Print Assumptions insert_alen_le.
Print Assumptions remove_minv.
Print Assumptions remove_cinv.
Print Assumptions remove_alen.
Print Assumptions remove_nnodes.
Print Assumptions remove_root.
Print Assumptions remove_keep_tree_minv.
Print Assumptions remove_keep_tree_cinv.
Print Assumptions remove_keep_tree_alen.
Print Assumptions occ_remove_minv.
Print Assumptions occ_remove_cinv.
Print Assumptions occ_remove_len.
Print Assumptions occ_remove_alen.
Print Assumptions occ_insert_minv.
Print Assumptions occ_insert_entries.
Print Assumptions occ_insert_cinv.
Print Assumptions occ_insert_alen.
Print Assumptions update_value_minv.
Print Assumptions update_value_cinv.
Print Assumptions update_value_alen.
Print Assumptions clear_minv.
Print Assumptions clear_cinv.
Print Assumptions remove_children_minv.
Print Assumptions remove_children_cinv.
Print Assumptions remove_children_alen.
Print Assumptions retain_minv.
Print Assumptions retain_cinv.
Print Assumptions retain_alen.
Print Assumptions retain_root.
Print Assumptions vacant_insert_minv.
Print Assumptions vacant_insert_cinv.
Print Assumptions vacant_insert_alen.
Print Assumptions from_list_minv.
Print Assumptions from_list_cinv.
Print Assumptions reuse_before_grow.
Print Assumptions reuse_free_slots.
Print Assumptions clear_alen.
Print Assumptions run_ops_inv.
Print Assumptions churn_high_water.
Print Assumptions churn_from_empty.
