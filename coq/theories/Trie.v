(** The model of [src/inner.rs], [src/map/mod.rs], [src/map/entry.rs], [src/map/iter.rs].
    Definitions only (no proofs), so that the model still extracts when a proof breaks.

    A map is an inductive binary tree whose nodes carry the arena slot number ([id]) they live in,
    plus the free list, the arena length and the cached entry counter.  Every Rust loop that
    descends along a path is a structural recursion here; every mutation at the end of a descent
    rebuilds the spine.  The operations are written over an abstract record of prefix operations
    (Section variables) and instantiated with [PrefixN] in [Inst.v]. *)
From Coq Require Import List NArith ZArith Bool.
From PT Require Import Machine.
Import ListNotations.

Section T.
Variables (pfx V : Type).
Variables (peq contains : pfx -> pfx -> bool) (is_bit_set : pfx -> N -> bool)
          (plen : pfx -> N) (lcp : pfx -> pfx -> pfx) (pzero : pfx).

Inductive tree := Leaf | Node (id : N) (p : pfx) (v : option V) (l r : tree).

(** [free]: head = top of the Rust [Vec] used as a stack.  [count] is the cached [len()];
    it is a [Z] so that an underflow ([count -= 1] at 0) is visible as a negative number. *)
Record alloc := mkalloc { free : list N; alen : N; count : Z }.
Record pmap := mkmap { root : tree; al : alloc }.

Definition empty : pmap :=
  mkmap (Node 0%N pzero None Leaf Leaf) (mkalloc [] 1%N 0%Z).

Definition is_node (t : tree) : bool := match t with Leaf => false | Node _ _ _ _ _ => true end.
Definition is_none {A} (o : option A) : bool := match o with None => true | Some _ => false end.
Definition is_some {A} (o : option A) : bool := negb (is_none o).

Definition tval (t : tree) : option V := match t with Node _ _ v _ _ => v | Leaf => None end.
Definition tpfx (t : tree) : pfx := match t with Node _ p _ _ _ => p | Leaf => pzero end.
Definition tid (t : tree) : N := match t with Node i _ _ _ _ => i | Leaf => 0%N end.
Definition tleft (t : tree) : tree := match t with Node _ _ _ l _ => l | Leaf => Leaf end.
Definition tright (t : tree) : tree := match t with Node _ _ _ _ r => r | Leaf => Leaf end.
Definition pv (t : tree) : option (pfx * V) :=
  match t with Node _ p (Some x) _ _ => Some (p, x) | _ => None end.

Definition with_child (i : N) (p : pfx) (v : option V) (l r : tree) (rt : bool) (c : tree) : tree :=
  if rt then Node i p v l c else Node i p v c r.

(** [to_right(branch, child)] *)
Definition to_right (bp cp : pfx) : bool := is_bit_set cp (plen bp).

(* ------------------------------------------------------------------------------------------ *)
(** * Exact-match descents ([get_direction]: Reached | Enter | Missing) *)

(** the node reached by the descent of [get]/[get_mut]/[get_key_value]/[contains_key] *)
Fixpoint get_node (t : tree) (q : pfx) : option (N * pfx * option V) :=
  match t with
  | Leaf => None
  | Node i p v l r =>
    if peq p q then Some (i, p, v) else
    let c := if to_right p q then r else l in
    match c with
    | Node _ cp _ _ _ => if contains cp q then get_node c q else None
    | Leaf => None
    end
  end.

Definition get (t : tree) (q : pfx) : option V :=
  match get_node t q with Some (_, _, v) => v | None => None end.
Definition get_key_value (t : tree) (q : pfx) : option (pfx * V) :=
  match get_node t q with Some (_, p, Some x) => Some (p, x) | _ => None end.
Definition contains_key (t : tree) (q : pfx) : bool :=
  match get_node t q with Some (_, _, Some _) => true | _ => false end.

(** [get_lpm]: tracks a reference to the best (prefix, value) *)
Fixpoint lpm_walk (t : tree) (q : pfx) (best : option (pfx * V)) : option (pfx * V) :=
  match t with
  | Leaf => best
  | Node _ p v l r =>
    let best := match v with Some x => Some (p, x) | None => best end in
    if peq p q then best else
    let c := if to_right p q then r else l in
    match c with
    | Node _ cp _ _ _ => if contains cp q then lpm_walk c q best else best
    | Leaf => best
    end
  end.
Definition get_lpm (t : tree) (q : pfx) := lpm_walk t q None.

(** [get_lpm_prefix]: its own loop, tracks the prefix only *)
Fixpoint lpmp_walk (t : tree) (q : pfx) (best : option pfx) : option pfx :=
  match t with
  | Leaf => best
  | Node _ p v l r =>
    let best := match v with Some _ => Some p | None => best end in
    if peq p q then best else
    let c := if to_right p q then r else l in
    match c with
    | Node _ cp _ _ _ => if contains cp q then lpmp_walk c q best else best
    | Leaf => best
    end
  end.
Definition get_lpm_prefix (t : tree) (q : pfx) := lpmp_walk t q None.

(** [get_lpm_mut]: its own loop, tracks the index of the best node; the final
    [prefix_value_mut] is the lookup of that slot *)
Fixpoint lpmm_walk (t : tree) (q : pfx) (best : option (N * pfx * V)) : option (N * pfx * V) :=
  match t with
  | Leaf => best
  | Node i p v l r =>
    let best := match v with Some x => Some (i, p, x) | None => best end in
    if peq p q then best else
    let c := if to_right p q then r else l in
    match c with
    | Node _ cp _ _ _ => if contains cp q then lpmm_walk c q best else best
    | Leaf => best
    end
  end.
Definition get_lpm_mut (t : tree) (q : pfx) := lpmm_walk t q None.

(** [get_spm]: root special case, then the first valued node entered *)
Fixpoint spm_walk (t : tree) (q : pfx) : option (pfx * V) :=
  match t with
  | Leaf => None
  | Node _ p v l r =>
    if peq p q then (match v with Some x => Some (p, x) | None => None end) else
    let c := if to_right p q then r else l in
    match c with
    | Node _ cp cv _ _ =>
      if contains cp q then
        match cv with Some x => Some (cp, x) | None => spm_walk c q end
      else None
    | Leaf => None
    end
  end.
Definition get_spm (t : tree) (q : pfx) : option (pfx * V) :=
  match pv t with Some x => Some x | None => spm_walk t q end.
Definition get_spm_prefix (t : tree) (q : pfx) : option pfx := option_map fst (get_spm t q).

(** [Cover::next]: lazy state machine.  [CStart] = [idx: None]. *)
Inductive cstate := CStart | CAt (t : tree).
(** the loop of [Cover::next] from the node [t]: returns the item and the node the iterator
    stops at *)
Fixpoint cover_loop (t : tree) (q : pfx) : option (pfx * V) * tree :=
  match t with
  | Leaf => (None, t)
  | Node _ p _ l r =>
    if peq p q then (None, t) else
    let c := if to_right p q then r else l in
    match c with
    | Node _ cp cv _ _ =>
      if contains cp q then
        match cv with Some x => (Some (cp, x), c) | None => cover_loop c q end
      else (None, t)
    | Leaf => (None, t)
    end
  end.
Definition cover_next (T : tree) (st : cstate) (q : pfx) : option (pfx * V) * cstate :=
  match st with
  | CStart =>
    match pv T with
    | Some x => (Some x, CAt T)
    | None => let '(o, t') := cover_loop T q in (o, CAt t')
    end
  | CAt t => let '(o, t') := cover_loop t q in (o, CAt t')
  end.
(** drain the iterator ([fuel] calls of [next] at most) *)
Fixpoint cover_drain (fuel : nat) (T : tree) (st : cstate) (q : pfx) : list (pfx * V) :=
  match fuel with
  | O => []
  | S f =>
    match cover_next T st q with
    | (Some x, st') => x :: cover_drain f T st' q
    | (None, _) => []
    end
  end.
(** the whole cover as a direct recursion (what [cover_drain] is proved equal to) *)
Fixpoint cover_walk (t : tree) (q : pfx) : list (pfx * V) :=
  match t with
  | Leaf => []
  | Node _ p v l r =>
    let own := match v with Some x => [(p, x)] | None => [] end in
    if peq p q then own else
    let c := if to_right p q then r else l in
    match c with
    | Node _ cp _ _ _ => if contains cp q then own ++ cover_walk c q else own
    | Leaf => own
    end
  end.

(* ------------------------------------------------------------------------------------------ *)
(** * Allocation *)

Definition push_free (i : N) (a : alloc) : alloc := mkalloc (i :: free a) (alen a) (count a).
Definition add_count (d : Z) (a : alloc) : alloc := mkalloc (free a) (alen a) (count a + d)%Z.
Definition dec_if {A} (v : option A) (a : alloc) : alloc :=
  match v with Some _ => add_count (-1) a | None => a end.
Definition inc_if_none {A} (v : option A) (a : alloc) : alloc :=
  match v with Some _ => a | None => add_count 1 a end.

(** [new_node]: bump the counter if a value is stored, pop the free list or grow the arena *)
Definition new_node (a : alloc) (has_value : bool) : N * alloc :=
  let c := if has_value then (count a + 1)%Z else count a in
  match free a with
  | i :: f => (i, mkalloc f (alen a) c)
  | [] => (alen a, mkalloc [] (alen a + 1)%N c)
  end.

(* ------------------------------------------------------------------------------------------ *)
(** * [insert] ([get_direction_for_insert]: Reached | Enter | NewLeaf | NewChild | NewBranch) *)

Fixpoint ins (t : tree) (q : pfx) (x : V) (a : alloc) : tree * option V * alloc :=
  match t with
  | Leaf => (Leaf, None, a)
  | Node i p v l r =>
    if peq p q then
      (* Reached: replace the prefix, swap the value, bump the counter if there was none *)
      (Node i q (Some x) l r, v, inc_if_none v a)
    else
      let rt := to_right p q in
      let c := if rt then r else l in
      match c with
      | Leaf =>
        (* NewLeaf *)
        let '(n, a1) := new_node a true in
        (with_child i p v l r rt (Node n q (Some x) Leaf Leaf), None, a1)
      | Node _ cp _ _ _ =>
        if contains cp q then
          (* Enter *)
          let '(c', o, a') := ins c q x a in (with_child i p v l r rt c', o, a')
        else if contains q cp then
          (* NewChild *)
          let '(n, a1) := new_node a true in
          let nn := if to_right q cp then Node n q (Some x) Leaf c else Node n q (Some x) c Leaf in
          (with_child i p v l r rt nn, None, a1)
        else
          (* NewBranch: the branch slot is allocated first *)
          let bp := lcp q cp in
          let '(b, a1) := new_node a false in
          let '(n, a2) := new_node a1 true in
          let nn := Node n q (Some x) Leaf Leaf in
          let bn := if to_right bp q then Node b bp None c nn else Node b bp None nn c in
          (with_child i p v l r rt bn, None, a2)
      end
  end.

Definition insert (m : pmap) (q : pfx) (x : V) : pmap * option V :=
  let '(t, o, a) := ins (root m) q x (al m) in (mkmap t a, o).

(** [VacantEntry::_insert]: the second copy of the four placement cases.  In the Reached case
    the counter is bumped unconditionally (the node is known to be value-less). *)
Fixpoint vins (t : tree) (q : pfx) (x : V) (a : alloc) : tree * alloc :=
  match t with
  | Leaf => (Leaf, a)
  | Node i p v l r =>
    if peq p q then (Node i q (Some x) l r, add_count 1 a)
    else
      let rt := to_right p q in
      let c := if rt then r else l in
      match c with
      | Leaf =>
        let '(n, a1) := new_node a true in
        (with_child i p v l r rt (Node n q (Some x) Leaf Leaf), a1)
      | Node _ cp _ _ _ =>
        if contains cp q then
          let '(c', a') := vins c q x a in (with_child i p v l r rt c', a')
        else if contains q cp then
          let '(n, a1) := new_node a true in
          let nn := if to_right q cp then Node n q (Some x) Leaf c else Node n q (Some x) c Leaf in
          (with_child i p v l r rt nn, a1)
        else
          let bp := lcp q cp in
          let '(b, a1) := new_node a false in
          let '(n, a2) := new_node a1 true in
          let nn := Node n q (Some x) Leaf Leaf in
          let bn := if to_right bp q then Node b bp None c nn else Node b bp None nn c in
          (with_child i p v l r rt bn, a2)
      end
  end.

(** modify the node reached by the exact-match descent (used for [get_mut], [OccupiedEntry],
    [remove_keep_tree]); [h] receives the node's prefix and value *)
Fixpoint modify (t : tree) (q : pfx) (h : pfx -> option V -> pfx * option V) : tree :=
  match t with
  | Leaf => Leaf
  | Node i p v l r =>
    if peq p q then let '(p', v') := h p v in Node i p' v' l r else
    let rt := to_right p q in
    let c := if rt then r else l in
    match c with
    | Node _ cp _ _ _ => if contains cp q then with_child i p v l r rt (modify c q h) else t
    | Leaf => t
    end
  end.

(* ------------------------------------------------------------------------------------------ *)
(** * [remove], [_remove_node] *)

(** [_remove_node] seen from the node itself; [hp] = the node has a parent.  Returns what now
    stands at the node's position and whether the node was unlinked *as a leaf* — in that case
    the parent's frame ([absorb]) performs the rest of [_remove_node]: collapsing a value-less
    parent into the sibling when a grandparent exists. *)
Definition remove_self (hp : bool) (i : N) (p : pfx) (v : option V) (l r : tree) (a : alloc)
  : tree * bool * alloc :=
  let a := dec_if v a in
  match is_node l, is_node r with
  | true, true => (Node i p None l r, false, a)
  | false, false => if hp then (Leaf, true, push_free i a) else (Node i p None l r, false, a)
  | _, _ =>
    if hp then ((if is_node r then r else l), false, push_free i a)
    else (Node i p None l r, false, a)
  end.

(** the parent (slot [i], value [v], own parent present = [hp]) after its child on side [rt]
    was unlinked as a leaf; [sib] is the other child.  Returns what now stands at the parent's
    position. *)
Definition absorb (hp : bool) (i : N) (p : pfx) (v : option V) (l r : tree) (rt : bool) (a : alloc)
  : tree * alloc :=
  if hp && is_none v then ((if rt then l else r), push_free i a)
  else (with_child i p v l r rt Leaf, a).

Fixpoint rem (hp : bool) (t : tree) (q : pfx) (a : alloc) : tree * bool * option V * alloc :=
  match t with
  | Leaf => (Leaf, false, None, a)
  | Node i p v l r =>
    if peq p q then
      let '(t', fl, a') := remove_self hp i p v l r a in (t', fl, v, a')
    else
      let rt := to_right p q in
      let c := if rt then r else l in
      match c with
      | Leaf => (t, false, None, a)
      | Node _ cp _ _ _ =>
        if contains cp q then
          let '(c', fl, o, a') := rem true c q a in
          if fl then let '(t', a'') := absorb hp i p v l r rt a' in (t', false, o, a'')
          else (with_child i p v l r rt c', false, o, a')
        else (t, false, None, a)
      end
  end.

Definition remove (m : pmap) (q : pfx) : pmap * option V :=
  let '(t, _, o, a) := rem false (root m) q (al m) in (mkmap t a, o).

Definition remove_keep_tree (m : pmap) (q : pfx) : pmap * option V :=
  let o := get (root m) q in
  (mkmap (modify (root m) q (fun p _ => (p, None))) (dec_if o (al m)), o).

(* ------------------------------------------------------------------------------------------ *)
(** * [remove_children], [clear] *)

(** [_do_remove_children]: explicit stack; a node is freed, then its right subtree, then its
    left subtree *)
Fixpoint free_all (t : tree) (a : alloc) : alloc :=
  match t with
  | Leaf => a
  | Node i _ v l r => free_all l (free_all r (push_free i (dec_if v a)))
  end.

Fixpoint rc (t : tree) (q : pfx) (a : alloc) : tree * alloc :=
  match t with
  | Leaf => (Leaf, a)
  | Node i p v l r =>
    if peq p q then (t, a) (* only for the zero-length prefix, which [remove_children] diverts *)
    else
      let rt := to_right p q in
      let c := if rt then r else l in
      match c with
      | Leaf => (t, a)
      | Node _ cp _ _ _ =>
        if contains cp q then
          if peq cp q then (with_child i p v l r rt Leaf, free_all c a)
          else let '(c', a') := rc c q a in (with_child i p v l r rt c', a')
        else if contains q cp then (with_child i p v l r rt Leaf, free_all c a)
        else (t, a)
      end
  end.

Definition clear (m : pmap) : pmap := empty.

Definition remove_children (m : pmap) (q : pfx) : pmap :=
  if (plen q =? 0)%N then clear m
  else let '(t, a) := rc (root m) q (al m) in mkmap t a.

(* ------------------------------------------------------------------------------------------ *)
(** * [retain] / [_retain]
    The predicate receives the number of earlier invocations; [None] = the closure panics. *)

Inductive rstat := RDone (removed_as_leaf : bool) | RPanic.
Definition rstate := (alloc * list (pfx * V))%type.   (* allocator, log of predicate calls (latest first) *)

Fixpoint ret (f : nat -> pfx -> V -> option bool) (hp : bool) (t : tree) (s : rstate)
  : tree * rstat * rstate :=
  match t with
  | Leaf => (Leaf, RDone false, s)
  | Node i p v l r =>
    let '(l', sl, s1) := ret f true l s in
    match sl with
    | RPanic => (Node i p v l' r, RPanic, s1)
    | RDone fl =>
      if fl && (hp && is_none v) then
        (* this node was collapsed by the removal of its left child: the right child now stands
           here and is processed with this node's own parent context *)
        ret f hp r (push_free i (fst s1), snd s1)
      else
        let '(r', sr, s2) := ret f true r s1 in
        match sr with
        | RPanic => (Node i p v l' r', RPanic, s2)
        | RDone fr =>
          if fr && (hp && is_none v) then
            (* collapsed by the removal of the right child; that flag is ignored by the caller *)
            (l', RDone false, (push_free i (fst s2), snd s2))
          else
            match v with
            | None => (Node i p None l' r', RDone false, s2)
            | Some x =>
              match f (length (snd s2)) p x with
              | None => (Node i p v l' r', RPanic, s2)
              | Some true => (Node i p v l' r', RDone false, (fst s2, (p, x) :: snd s2))
              | Some false =>
                let '(t', fl', a') := remove_self hp i p v l' r' (fst s2) in
                (t', RDone fl', (a', (p, x) :: snd s2))
              end
            end
        end
    end
  end.

(** returns the map, whether the closure panicked, and the predicate calls in call order *)
Definition retain (f : nat -> pfx -> V -> option bool) (m : pmap) : pmap * bool * list (pfx * V) :=
  let '(t, st, (a, log)) := ret f false (root m) (al m, []) in
  (mkmap t a, match st with RPanic => true | _ => false end, rev log).

(* ------------------------------------------------------------------------------------------ *)
(** * Iterators ([Iter], [IterMut], [IntoIter] share one loop shape) *)

Definition nodes_of (ts : list tree) : list tree := filter is_node ts.

(** one loop iteration of [Iter::next]: push right, push left, emit if valued.
    Items carry the slot number, so that the same machine serves [IterMut]. *)
Definition iter_expand (t : tree) : option (N * pfx * V) * list tree :=
  match t with
  | Leaf => (None, [])
  | Node i p v l r =>
    (match v with Some x => Some (i, p, x) | None => None end, nodes_of [r; l])
  end.

Fixpoint tsize (t : tree) : nat :=
  match t with Leaf => 0 | Node _ _ _ l r => S (tsize l + tsize r) end.

Definition iter_run (st : list tree) : option (list (N * pfx * V)) :=
  run tree (N * pfx * V) iter_expand (S (list_sum (map tsize st))) st.

Definition iter_items (t : tree) : list (N * pfx * V) :=
  match iter_run (nodes_of [t]) with Some l => l | None => [] end.

(** [IterMut::next] is a separate copy of the loop (it goes through [Table::get_mut]) *)
Definition iter_mut_expand (t : tree) : option (N * pfx * V) * list tree :=
  match t with
  | Leaf => (None, [])
  | Node i p v l r =>
    (match v with Some x => Some (i, p, x) | None => None end, nodes_of [r; l])
  end.
Definition iter_mut_items (t : tree) : list (N * pfx * V) :=
  match run tree (N * pfx * V) iter_mut_expand (S (tsize t)) (nodes_of [t]) with
  | Some l => l | None => [] end.

(** [IntoIter::next]: third copy (takes the values out of the owned table) *)
Definition into_iter_expand (t : tree) : option (N * pfx * V) * list tree :=
  match t with
  | Leaf => (None, [])
  | Node i p v l r =>
    (match v with Some x => Some (i, p, x) | None => None end, nodes_of [r; l])
  end.
Definition into_iter_items (t : tree) : list (N * pfx * V) :=
  match run tree (N * pfx * V) into_iter_expand (S (tsize t)) (nodes_of [t]) with
  | Some l => l | None => [] end.

(** the pre-order list of stored entries: what every iterator is proved to yield *)
Fixpoint entries (t : tree) : list (pfx * V) :=
  match t with
  | Leaf => []
  | Node _ p v l r =>
    (match v with Some x => [(p, x)] | None => [] end) ++ entries l ++ entries r
  end.
Fixpoint entries_id (t : tree) : list (N * pfx * V) :=
  match t with
  | Leaf => []
  | Node i p v l r =>
    (match v with Some x => [(i, p, x)] | None => [] end) ++ entries_id l ++ entries_id r
  end.

(** [lpm_children_iter_start]: the initial stack of [children*] *)
Fixpoint children_start (t : tree) (q : pfx) : list tree :=
  match t with
  | Leaf => []
  | Node _ p _ l r =>
    if peq p q then [t] else
    let c := if to_right p q then r else l in
    match c with
    | Node _ cp _ _ _ =>
      if contains cp q then children_start c q
      else if contains q cp then [c]
      else []
    | Leaf => []
    end
  end.

Definition children (t : tree) (q : pfx) : list (N * pfx * V) :=
  match iter_run (children_start t q) with Some l => l | None => [] end.

Definition children_mut (t : tree) (q : pfx) : list (N * pfx * V) :=
  let st := children_start t q in
  match run tree (N * pfx * V) iter_mut_expand (S (list_sum (map tsize st))) st with
  | Some l => l | None => [] end.
Definition into_children (t : tree) (q : pfx) : list (N * pfx * V) :=
  let st := children_start t q in
  match run tree (N * pfx * V) into_iter_expand (S (list_sum (map tsize st))) st with
  | Some l => l | None => [] end.

(** write through the references handed out by a mutable traversal: every node whose slot is in
    [ws] gets the associated value *)
Fixpoint assoc_id (ws : list (N * V)) (i : N) : option V :=
  match ws with
  | [] => None
  | (j, x) :: ws' => if (j =? i)%N then Some x else assoc_id ws' i
  end.
Fixpoint write_ids (t : tree) (ws : list (N * V)) : tree :=
  match t with
  | Leaf => Leaf
  | Node i p v l r =>
    let v' := match v, assoc_id ws i with Some _, Some x => Some x | _, _ => v end in
    Node i p v' (write_ids l ws) (write_ids r ws)
  end.

(** [FromIterator]: repeated [insert] *)
Definition from_list (l : list (pfx * V)) : pmap :=
  fold_left (fun m e => fst (insert m (fst e) (snd e))) l empty.

(** [len()], [is_empty()] read the cached counter (a [usize]: negative = wrapped) *)
Definition len (m : pmap) : Z := count (al m).
Definition is_empty (m : pmap) : bool := (count (al m) =? 0)%Z.

(* ------------------------------------------------------------------------------------------ *)
(** * The Entry API ([src/map/entry.rs])
    A handle borrows the map exclusively, so the node it designates is determined by the key;
    operations on a handle are modelled as operations on the map keyed by the handle's prefix.
    [hremoved] records that [OccupiedEntry::remove] was called on this handle before. *)

Inductive hkind := HOcc | HVac.
Record handle := mkhandle { hkey : pfx; hkind_ : hkind; hremoved : bool }.

Definition entry (m : pmap) (q : pfx) : handle :=
  match get_node (root m) q with
  | Some (_, _, Some _) => mkhandle q HOcc false
  | _ => mkhandle q HVac false
  end.

(** [Entry::key] / [OccupiedEntry::key] / [VacantEntry::key] *)
Definition h_key (m : pmap) (h : handle) : pfx :=
  match hkind_ h with
  | HVac => hkey h
  | HOcc => match get_node (root m) (hkey h) with Some (_, p, _) => p | None => hkey h end
  end.

(** [Entry::get] (total: [None] for a vacant entry or a removed value) *)
Definition h_get (m : pmap) (h : handle) : option V :=
  match hkind_ h with HVac => None | HOcc => get (root m) (hkey h) end.

Definition vacant_insert (m : pmap) (q : pfx) (x : V) : pmap :=
  let '(t, a) := vins (root m) q x (al m) in mkmap t a.

(** [OccupiedEntry::insert]: replaces prefix and value, returns the old value
    ([None] here = the Rust [unwrap] panics) *)
Definition occ_insert (m : pmap) (q : pfx) (x : V) : pmap * option V :=
  let o := get (root m) q in
  (mkmap (modify (root m) q (fun _ _ => (q, Some x))) (al m), o).

(** [OccupiedEntry::remove]: takes the value out and decrements the counter *)
Definition occ_remove (m : pmap) (q : pfx) : pmap * option V :=
  let o := get (root m) q in
  (mkmap (modify (root m) q (fun p _ => (p, None))) (dec_if o (al m)), o).

(** apply [g] to the stored value ([get_mut], [and_modify], writes through returned references) *)
Definition update_value (m : pmap) (q : pfx) (g : V -> V) : pmap :=
  mkmap (modify (root m) q (fun p v => (p, option_map g v))) (al m).

End T.

(** [PartialEq for PrefixMap]: [self.iter().eq(other.iter())] under the key and value types'
    own equality ([prepr_eq] compares the stored representation, host bits included) *)
Section E.
Variables (pfx V : Type) (prepr_eq : pfx -> pfx -> bool) (veq : V -> V -> bool).
Fixpoint list_eqb (a b : list (pfx * V)) : bool :=
  match a, b with
  | [], [] => true
  | (p, x) :: a', (q, y) :: b' => prepr_eq p q && veq x y && list_eqb a' b'
  | _, _ => false
  end.
Definition map_eq (a b : tree pfx V) : bool := list_eqb (entries pfx V a) (entries pfx V b).
End E.

Arguments Leaf {pfx V}.
Arguments Node {pfx V}.
Arguments mkmap {pfx V}.
Arguments root {pfx V}.
Arguments al {pfx V}.
Arguments is_node {pfx V}.
Arguments is_none {A}.
Arguments is_some {A}.
Arguments tval {pfx V}.
Arguments tid {pfx V}.
Arguments tleft {pfx V}.
Arguments tright {pfx V}.
Arguments pv {pfx V}.
Arguments tsize {pfx V}.
Arguments entries {pfx V}.
Arguments entries_id {pfx V}.
Arguments nodes_of {pfx V}.
Arguments write_ids {pfx V}.
Arguments assoc_id {V}.
Arguments len {pfx V}.
Arguments is_empty {pfx V}.
Arguments mkhandle {pfx}.
Arguments hkey {pfx}.
Arguments hkind_ {pfx}.
Arguments hremoved {pfx}.
Arguments CStart {pfx V}.
Arguments CAt {pfx V}.
