(** Well-formedness of the trie, the entry list and its order, and the facts every descent uses. *)
From Coq Require Import List NArith ZArith Bool Arith Lia Sorted.
From PT Require Import Bits BitsThm Laws Machine Trie.
Import ListNotations.

Section WF.
Variables (pfx V : Type).
Variables (peq contains : pfx -> pfx -> bool) (is_bit_set : pfx -> N -> bool)
          (plen : pfx -> N) (lcp : pfx -> pfx -> pfx) (pzero : pfx)
          (mcmp : pfx -> pfx -> comparison).
Variable bits : pfx -> list bool.
Variable ok : pfx -> Prop.
Hypothesis LAWS : prefix_laws pfx peq contains is_bit_set plen lcp pzero mcmp bits ok.

Notation tree := (tree pfx V).
Notation to_right := (to_right pfx is_bit_set plen).

(** every node's key extends the bound given by its parent's key and the branch bit *)
Fixpoint wf_under (b : list bool) (t : tree) : Prop :=
  match t with
  | Leaf => True
  | Node _ p _ l r =>
    ok p /\ prefix_of b (bits p) /\ wf_under (bits p ++ [false]) l /\ wf_under (bits p ++ [true]) r
  end.

(** a whole map: the root is the zero-length prefix *)
Definition wf_root (t : tree) : Prop :=
  match t with
  | Leaf => False
  | Node _ p _ _ _ => bits p = [] /\ wf_under [] t
  end.

Definition key (e : pfx * V) : list bool := bits (fst e).
Definition key_lt (e1 e2 : pfx * V) : Prop := lex_lt (key e1) (key e2).
(** [a] covers [b] *)
Definition covers (a b : pfx) : Prop := prefix_of (bits a) (bits b).

Lemma wf_weaken b b' t : prefix_of b' b -> wf_under b t -> wf_under b' t.
Proof.
  destruct t as [|i p v l r]; [trivial|]. cbn. intros H [H0 [H1 H2]].
  split; [exact H0|]. split; [eapply prefix_of_trans; eassumption | exact H2].
Qed.

Lemma wf_node_inv b i p v l r :
  wf_under b (Node i p v l r) ->
  ok p /\ prefix_of b (bits p) /\ wf_under (bits p ++ [false]) l /\ wf_under (bits p ++ [true]) r.
Proof. cbn. tauto. Qed.

Lemma entries_under b t e : wf_under b t -> In e (entries t) -> prefix_of b (key e).
Proof.
  revert b. induction t as [|i p v l IHl r IHr]; intros b Hwf Hin; cbn in Hin; [contradiction|].
  destruct Hwf as [_ [Hb [Hl Hr]]].
  rewrite !in_app_iff in Hin. destruct Hin as [Hin|[Hin|Hin]].
  - destruct v; cbn in Hin; [|contradiction]. destruct Hin as [<-|[]]. exact Hb.
  - eapply prefix_of_trans; [exact Hb|]. eapply below_prefix. apply (IHl _ Hl Hin).
  - eapply prefix_of_trans; [exact Hb|]. eapply below_prefix. apply (IHr _ Hr Hin).
Qed.

Lemma entries_ok b t e : wf_under b t -> In e (entries t) -> ok (fst e).
Proof.
  revert b. induction t as [|i p v l IHl r IHr]; intros b Hwf Hin; cbn in Hin; [contradiction|].
  destruct Hwf as [Hok [_ [Hl Hr]]].
  rewrite !in_app_iff in Hin. destruct Hin as [Hin|[Hin|Hin]].
  - destruct v; cbn in Hin; [|contradiction]. destruct Hin as [<-|[]]. exact Hok.
  - apply (IHl _ Hl Hin).
  - apply (IHr _ Hr Hin).
Qed.

Lemma Forall_key_lt_app (x : pfx * V) l1 l2 :
  Forall (key_lt x) l1 -> Forall (key_lt x) l2 -> Forall (key_lt x) (l1 ++ l2).
Proof. intros. apply Forall_app. split; assumption. Qed.

Lemma sorted_app (l1 l2 : list (pfx * V)) :
  StronglySorted key_lt l1 -> StronglySorted key_lt l2 ->
  (forall a b, In a l1 -> In b l2 -> key_lt a b) ->
  StronglySorted key_lt (l1 ++ l2).
Proof.
  induction l1 as [|x l1 IH]; intros H1 H2 H; cbn; [exact H2|].
  inversion H1 as [|? ? Hs Hf]; subst. constructor.
  - apply IH; [exact Hs | exact H2 | intros a b Ha Hb; apply H; [right; exact Ha | exact Hb]].
  - apply Forall_app. split; [exact Hf|]. apply Forall_forall. intros b Hb. apply H; [left; reflexivity | exact Hb].
Qed.

(** the pre-order entry list is strictly ascending in the iteration order *)
Theorem entries_sorted b t : wf_under b t -> StronglySorted key_lt (entries t).
Proof.
  revert b. induction t as [|i p v l IHl r IHr]; intros b Hwf; cbn [entries]; [constructor|].
  destruct Hwf as [_ [Hb [Hl Hr]]].
  assert (Hlr : StronglySorted key_lt (entries l ++ entries r)).
  { apply sorted_app; [eapply IHl; exact Hl | eapply IHr; exact Hr|].
    intros a c Ha Hc. unfold key_lt. eapply lex_lt_branches.
    - apply (entries_under _ _ _ Hl Ha).
    - apply (entries_under _ _ _ Hr Hc). }
  destruct v as [x|]; cbn [app]; [|exact Hlr].
  constructor; [exact Hlr|]. apply Forall_forall. intros e He.
  unfold key_lt, key. cbn [fst].
  rewrite in_app_iff in He. destruct He as [He|He].
  - pose proof (entries_under _ _ _ Hl He) as H. apply lex_lt_prefix; [eapply below_prefix; exact H|].
    intros E. eapply below_neq; [exact H | symmetry; exact E].
  - pose proof (entries_under _ _ _ Hr He) as H. apply lex_lt_prefix; [eapply below_prefix; exact H|].
    intros E. eapply below_neq; [exact H | symmetry; exact E].
Qed.

Lemma sorted_key_inj (l : list (pfx * V)) e1 e2 :
  StronglySorted key_lt l -> In e1 l -> In e2 l -> key e1 = key e2 -> e1 = e2.
Proof.
  induction l as [|x l IH]; intros Hs H1 H2 E; [contradiction|].
  inversion Hs as [|? ? Hs' Hf]; subst. rewrite Forall_forall in Hf.
  destruct H1 as [<-|H1]; destruct H2 as [<-|H2].
  - reflexivity.
  - exfalso. specialize (Hf _ H2). unfold key_lt in Hf. rewrite E in Hf. eapply lex_lt_irrefl; exact Hf.
  - exfalso. specialize (Hf _ H1). unfold key_lt in Hf. rewrite E in Hf. eapply lex_lt_irrefl; exact Hf.
  - apply IH; assumption.
Qed.

(** no key is stored twice *)
Theorem entries_key_inj b t e1 e2 :
  wf_under b t -> In e1 (entries t) -> In e2 (entries t) -> key e1 = key e2 -> e1 = e2.
Proof. intros Hwf. apply sorted_key_inj. eapply entries_sorted; exact Hwf. Qed.

(** two strictly sorted lists with the same members are equal *)
Lemma sorted_ext (l1 l2 : list (pfx * V)) :
  StronglySorted key_lt l1 -> StronglySorted key_lt l2 ->
  (forall e, In e l1 <-> In e l2) -> l1 = l2.
Proof.
  revert l2. induction l1 as [|x l1 IH]; intros l2 H1 H2 H.
  - destruct l2 as [|y l2]; [reflexivity|]. exfalso. apply (H y). left; reflexivity.
  - destruct l2 as [|y l2]; [exfalso; apply (H x); left; reflexivity|].
    inversion H1 as [|? ? Hs1 Hf1]; subst. inversion H2 as [|? ? Hs2 Hf2]; subst.
    rewrite Forall_forall in Hf1, Hf2.
    assert (x = y).
    { destruct (proj1 (H x) (or_introl eq_refl)) as [E|Hx]; [symmetry; exact E|].
      destruct (proj2 (H y) (or_introl eq_refl)) as [E|Hy]; [exact E|].
      exfalso. pose proof (Hf1 _ Hy) as A. pose proof (Hf2 _ Hx) as B.
      unfold key_lt in *. eapply lex_lt_irrefl. eapply lex_lt_trans; eassumption. }
    subst y. f_equal. apply IH; [exact Hs1 | exact Hs2|].
    intros e. split; intros He.
    + destruct (proj1 (H e) (or_intror He)) as [E|?]; [|assumption].
      subst e. exfalso. specialize (Hf1 _ He). unfold key_lt in Hf1. eapply lex_lt_irrefl; exact Hf1.
    + destruct (proj2 (H e) (or_intror He)) as [E|?]; [|assumption].
      subst e. exfalso. specialize (Hf2 _ He). unfold key_lt in Hf2. eapply lex_lt_irrefl; exact Hf2.
Qed.

(* ---------------------------------------------------------------------------------------- *)
(** * The descent step *)

Lemma to_right_spec p q : ok p -> ok q -> to_right p q = nth (length (bits p)) (bits q) false.
Proof.
  intros Hp Hq. unfold Trie.to_right. rewrite (bit_spec _ _ _ _ _ _ _ _ _ _ LAWS) by exact Hq.
  rewrite (plen_bits _ _ _ _ _ _ _ _ _ _ LAWS) by exact Hp. rewrite Nat2N.id. reflexivity.
Qed.

Lemma peq_true p q : ok p -> ok q -> peq p q = true -> bits p = bits q.
Proof. intros Hp Hq. apply (peq_spec _ _ _ _ _ _ _ _ _ _ LAWS); assumption. Qed.
Lemma peq_false p q : ok p -> ok q -> peq p q = false -> bits p <> bits q.
Proof.
  intros Hp Hq H E. apply (peq_spec _ _ _ _ _ _ _ _ _ _ LAWS) in E; [|assumption..]. congruence.
Qed.
Lemma peq_refl_bits p q : ok p -> ok q -> bits p = bits q -> peq p q = true.
Proof. intros Hp Hq. apply (peq_spec _ _ _ _ _ _ _ _ _ _ LAWS); assumption. Qed.
Lemma contains_true p q : ok p -> ok q -> contains p q = true -> prefix_of (bits p) (bits q).
Proof. intros Hp Hq. apply (contains_spec _ _ _ _ _ _ _ _ _ _ LAWS); assumption. Qed.
Lemma contains_false p q : ok p -> ok q -> contains p q = false -> ~ prefix_of (bits p) (bits q).
Proof.
  intros Hp Hq H E. apply (contains_spec _ _ _ _ _ _ _ _ _ _ LAWS) in E; [|assumption..]. congruence.
Qed.
Lemma contains_intro p q : ok p -> ok q -> prefix_of (bits p) (bits q) -> contains p q = true.
Proof. intros Hp Hq. apply (contains_spec _ _ _ _ _ _ _ _ _ _ LAWS); assumption. Qed.

(** below a node that covers but does not equal the query, the query continues on the side
    [to_right] selects *)
Lemma descent_side p q :
  ok p -> ok q -> prefix_of (bits p) (bits q) -> peq p q = false ->
  prefix_of (bits p ++ [to_right p q]) (bits q).
Proof.
  intros Hp Hq Hc Hne. rewrite to_right_spec by assumption.
  apply proper_ext; [exact Hc|]. intros E. eapply (peq_false p q); [exact Hp | exact Hq | exact Hne | symmetry; exact E].
Qed.

(** keys on the other side are incomparable with the query *)
Lemma branch_incomparable (a : list bool) s k q :
  prefix_of (a ++ [s]) q -> prefix_of (a ++ [negb s]) k -> ~ prefix_of k q /\ ~ prefix_of q k.
Proof.
  intros Hq Hk. split; intros H.
  - assert (H' : prefix_of (a ++ [negb s]) q) by (eapply prefix_of_trans; eassumption).
    destruct s; cbn in *; eapply sides_disjoint; eauto.
  - assert (H' : prefix_of (a ++ [s]) k) by (eapply prefix_of_trans; eassumption).
    destruct s; cbn in *; eapply sides_disjoint; eauto.
Qed.

Definition child_of (l r : tree) (s : bool) : tree := if s then r else l.

Lemma wf_child b i p v l r s :
  wf_under b (Node i p v l r) -> wf_under (bits p ++ [s]) (child_of l r s).
Proof. intros [_ [_ [Hl Hr]]]. destruct s; assumption. Qed.

Lemma other_side_incomparable b i p v l r q e :
  wf_under b (Node i p v l r) -> ok q -> prefix_of (bits p) (bits q) -> peq p q = false ->
  In e (entries (child_of l r (negb (to_right p q)))) ->
  ~ prefix_of (key e) (bits q) /\ ~ prefix_of (bits q) (key e).
Proof.
  intros Hwf Hq Hc Hne Hin.
  pose proof (wf_node_inv _ _ _ _ _ _ Hwf) as [Hp _].
  eapply branch_incomparable.
  - apply descent_side; eassumption.
  - eapply entries_under; [eapply wf_child; exact Hwf | exact Hin].
Qed.

(** entries of a node split into own entry, selected side, other side *)
Lemma in_entries_node i p v l r s (e : pfx * V) :
  In e (entries (Node i p v l r)) <->
  (v = Some (snd e) /\ fst e = p) \/ In e (entries (child_of l r s)) \/ In e (entries (child_of l r (negb s))).
Proof.
  cbn [entries]. rewrite !in_app_iff. destruct s; cbn [child_of negb].
  - split.
    + intros [H|[H|H]]; auto. destruct v; cbn in H; [|contradiction]. destruct H as [<-|[]]. left. auto.
    + intros [[-> <-]|[H|H]]; auto. left. destruct e. left. reflexivity.
  - split.
    + intros [H|[H|H]]; auto. destruct v; cbn in H; [|contradiction]. destruct H as [<-|[]]. left. auto.
    + intros [[-> <-]|[H|H]]; auto. left. destruct e. left. reflexivity.
Qed.

Lemma wf_self b i p v l r : wf_under b (Node i p v l r) -> wf_under (bits p) (Node i p v l r).
Proof. cbn. intros [? [? [? ?]]]. repeat split; try assumption. apply prefix_of_refl. Qed.

Lemma in_entries_l i p v l r (e : pfx * V) : In e (entries l) -> In e (entries (Node i p v l r)).
Proof. intros H. cbn [entries]. rewrite !in_app_iff. auto. Qed.
Lemma in_entries_r i p v l r (e : pfx * V) : In e (entries r) -> In e (entries (Node i p v l r)).
Proof. intros H. cbn [entries]. rewrite !in_app_iff. auto. Qed.
Lemma in_entries_own i (p : pfx) (x : V) (l r : tree) : In (p, x) (entries (Node i p (Some x) l r)).
Proof. left. reflexivity. Qed.
Lemma in_entries_inv i p v l r (e : pfx * V) :
  In e (entries (Node i p v l r)) -> (v = Some (snd e) /\ fst e = p) \/ In e (entries l) \/ In e (entries r).
Proof.
  cbn [entries]. rewrite !in_app_iff. intros [H|[H|H]]; auto.
  destruct v; cbn in H; [|contradiction]. destruct H as [<-|[]]. left. auto.
Qed.

(** a subtree whose root does not cover the query holds no entry covering or equal to it *)
Lemma subtree_no_cover b t q e :
  wf_under b t -> ok q ->
  match t with Leaf => True | Node _ cp _ _ _ => contains cp q = false end ->
  In e (entries t) -> ~ prefix_of (key e) (bits q).
Proof.
  intros Hwf Hq Hc Hin Hcov. destruct t as [|ci cp cv cl cr]; [contradiction|].
  pose proof (wf_node_inv _ _ _ _ _ _ Hwf) as [Hcp _].
  eapply contains_false; [exact Hcp | exact Hq | exact Hc|].
  eapply prefix_of_trans; [|exact Hcov].
  apply (entries_under (bits cp) (Node ci cp cv cl cr) e); [|exact Hin].
  apply wf_self with (b := b). exact Hwf.
Qed.

End WF.
