(** Correctness of [TrieView::union] / [union_mut] ([SetOps.v], section "union.rs") for arbitrary
    pairs of well-formed subtrees (no relation between the two view roots is assumed). *)
From Coq Require Import List NArith ZArith Bool Arith Lia ZifyN ZifyBool ZifyNat Sorted.
From PT Require Import Bits BitsThm Laws Machine MachineThm Trie TrieWf Lookup SetOps.
Import ListNotations.

(* ------------------------------------------------------------------------------------------ *)
(** * Bit strings: [bcmp] against the iteration order *)

Lemma bcmp_refl x : bcmp x x = Eq.
Proof. induction x as [|b x IH]; cbn; [reflexivity|]. destruct b; exact IH. Qed.

Lemma bcmp_sep c s r1 r2 : bcmp (c ++ s :: r1) (c ++ negb s :: r2) = if s then Gt else Lt.
Proof.
  induction c as [|z c IH]; cbn.
  - destruct s; reflexivity.
  - destruct z; exact IH.
Qed.

(** [x] lies in the 0-branch and [y] in the 1-branch below some common string *)
Definition sep (x y : list bool) : Prop :=
  exists c, prefix_of (c ++ [false]) x /\ prefix_of (c ++ [true]) y.

Lemma incomp_cases x y : ~ prefix_of x y -> ~ prefix_of y x ->
  (bcmp x y = Lt /\ sep x y) \/ (bcmp x y = Gt /\ sep y x).
Proof.
  intros H1 H2. destruct (common_split x y H1 H2) as [s [[r1 E1] [r2 E2]]].
  remember (common x y) as c eqn:Hc. clear Hc H1 H2.
  rewrite <- app_assoc in E1, E2. cbn in E1, E2. subst x y.
  pose proof (bcmp_sep c s r1 r2) as B.
  destruct s; cbn [negb] in *; [right|left]; (split; [exact B|]); exists c; split.
  - exists r2. rewrite <- app_assoc. reflexivity.
  - exists r1. rewrite <- app_assoc. reflexivity.
  - exists r1. rewrite <- app_assoc. reflexivity.
  - exists r2. rewrite <- app_assoc. reflexivity.
Qed.

Lemma bcmp_eq_same_len x y : length x = length y -> bcmp x y = Eq -> x = y.
Proof.
  intros Hl Hc. destruct (list_eq_dec bool_dec x y) as [E|N]; [exact E|]. exfalso.
  destruct (incomp_cases x y) as [[B _]|[B _]]; try congruence.
  - intros H. apply N. apply prefix_of_same_len; [exact H | lia].
  - intros H. apply N. symmetry. apply prefix_of_same_len; [exact H | lia].
Qed.

Lemma same_len_incomp x y : length x = length y -> x <> y -> ~ prefix_of x y /\ ~ prefix_of y x.
Proof.
  intros Hl N. split; intros H; apply N; [|symmetry]; apply prefix_of_same_len; auto; lia.
Qed.

Lemma sep_lex x y x' y' : sep x y -> prefix_of x x' -> prefix_of y y' -> lex_lt x' y'.
Proof.
  intros [c [Hx Hy]] Hx' Hy'. apply (lex_lt_branches c); eapply prefix_of_trans; eassumption.
Qed.

(** for equal-length strings [bcmp] decides equality and the iteration order; for incomparable
    strings it is never [Eq] and agrees with the iteration order *)
Lemma bcmp_same_len_eq x y : length x = length y -> (bcmp x y = Eq <-> x = y).
Proof. intros Hl. split; [apply bcmp_eq_same_len; exact Hl | intros ->; apply bcmp_refl]. Qed.

Lemma bcmp_incomp_lt x y : ~ prefix_of x y -> ~ prefix_of y x -> (bcmp x y = Lt <-> lex_lt x y).
Proof.
  intros H1 H2. destruct (incomp_cases x y H1 H2) as [[B S]|[B S]]; split; intros H; try congruence.
  - eapply sep_lex; [exact S | apply prefix_of_refl..].
  - exfalso. apply (lex_lt_irrefl x). eapply lex_lt_trans; [exact H|].
    eapply sep_lex; [exact S | apply prefix_of_refl..].
Qed.

Lemma bcmp_incomp_neq x y : ~ prefix_of x y -> ~ prefix_of y x -> bcmp x y <> Eq.
Proof. intros H1 H2. destruct (incomp_cases x y H1 H2) as [[B _]|[B _]]; congruence. Qed.

Lemma bcmp_same_len_lt x y : length x = length y -> (bcmp x y = Lt <-> lex_lt x y).
Proof.
  intros Hl. destruct (list_eq_dec bool_dec x y) as [E|N].
  - subst y. rewrite bcmp_refl. split; [discriminate | intros H; exfalso; eapply lex_lt_irrefl; exact H].
  - destruct (same_len_incomp x y Hl N) as [H1 H2]. apply bcmp_incomp_lt; assumption.
Qed.

(* ------------------------------------------------------------------------------------------ *)
(** * Generic list facts *)

Lemma ss_app {A} (Rl : A -> A -> Prop) (l1 l2 : list A) :
  StronglySorted Rl l1 -> StronglySorted Rl l2 ->
  (forall a b, In a l1 -> In b l2 -> Rl a b) -> StronglySorted Rl (l1 ++ l2).
Proof.
  induction l1 as [|x l1 IH]; intros H1 H2 H; cbn; [exact H2|].
  inversion H1 as [|? ? Hs Hf]; subst. constructor.
  - apply IH; [exact Hs | exact H2 | intros a b Ha Hb; apply H; [right; exact Ha | exact Hb]].
  - apply Forall_app. split; [exact Hf|]. apply Forall_forall. intros b Hb.
    apply H; [left; reflexivity | exact Hb].
Qed.

Ltac inv_F2 :=
  repeat match goal with
  | H : Forall2 _ [] _ |- _ => inversion H; subst; clear H
  | H : Forall2 _ (_ :: _) _ |- _ => inversion H; subst; clear H
  end.

(* ------------------------------------------------------------------------------------------ *)
Section UN.
Variables (pfx L R : Type).
Variables (peq contains : pfx -> pfx -> bool) (is_bit_set : pfx -> N -> bool)
          (plen : pfx -> N) (lcp : pfx -> pfx -> pfx) (pzero : pfx)
          (mcmp : pfx -> pfx -> comparison).
Variable bits : pfx -> list bool.
Variable ok : pfx -> Prop.
Hypothesis LAWS : prefix_laws pfx peq contains is_bit_set plen lcp pzero mcmp bits ok.

Notation treeL := (tree pfx L).
Notation treeR := (tree pfx R).
Notation to_right := (to_right pfx is_bit_set plen).
Notation uidx := (SetOps.uidx pfx L R).
Notation uentry := (SetOps.uentry pfx L R).
Notation uitem := (SetOps.uitem pfx L R).
Notation umitem := (SetOps.umitem pfx L R).
Notation lpmL := (SetOps.lpmL pfx L).
Notation lpmR := (SetOps.lpmR pfx R).
Arguments SetOps.UBoth {pfx L R}.
Arguments SetOps.UFirstL {pfx L R}.
Arguments SetOps.UFirstR {pfx L R}.
Arguments SetOps.UOnlyL {pfx L R}.
Arguments SetOps.UOnlyR {pfx L R}.
Arguments SetOps.ILeft {pfx L R}.
Arguments SetOps.IRight {pfx L R}.
Arguments SetOps.IBoth {pfx L R}.
Notation ni := (SetOps.u_next_indices pfx L R contains plen pzero mcmp).
Notation first_l := (SetOps.u_next_first_l pfx L R contains is_bit_set plen pzero mcmp).
Notation first_r := (SetOps.u_next_first_r pfx L R contains is_bit_set plen pzero mcmp).
Notation only_l := (SetOps.u_only_l pfx L R).
Notation only_r := (SetOps.u_only_r pfx L R).
Notation extend := (SetOps.u_extend_lpm pfx L R).
Notation u_get_next := (SetOps.u_get_next pfx L R).
Notation u_expand := (SetOps.u_expand pfx L R contains is_bit_set plen pzero mcmp).
Notation um_expand := (SetOps.um_expand pfx L R contains is_bit_set plen pzero mcmp).
Notation union := (SetOps.union pfx L R contains is_bit_set plen pzero mcmp).
Notation union_mut := (SetOps.union_mut pfx L R contains is_bit_set plen pzero mcmp).
Notation so_fuel := (SetOps.so_fuel pfx L R).

Definition ikey (it : uitem) : list bool :=
  bits (match it with ILeft p _ _ | IRight p _ _ | IBoth p _ _ => p end).
Definition ilt (i j : uitem) : Prop := lex_lt (ikey i) (ikey j).

Check ikey.
Print ikey.
End UN.
