(** Correctness of [TrieView::union] / [union_mut] ([SetOps.v], section "union.rs") for arbitrary
    pairs of well-formed subtrees (no relation between the two view roots is assumed). *)
From Coq Require Import List NArith ZArith Bool Arith Lia ZifyN ZifyBool ZifyNat Sorted.
From PT Require Import Bits BitsThm Laws Machine MachineThm Trie TrieWf Lookup SetOps.
Import ListNotations.

(* ------------------------------------------------------------------------------------------ *)
(** * Bit strings: [bcmp] against the iteration order *)

Lemma bcmp_refl x : bcmp x x = Eq.
Proof. induction x as [|b x IH]; cbn; [reflexivity|]. destruct b; exact IH. Qed.

Lemma bcmp_sep c s r1 r2 : bcmp (c ++ s :: r1) (c ++ negb s :: r2) = if s then Gt else Lt.
Proof.
  induction c as [|z c IH]; cbn.
  - destruct s; reflexivity.
  - destruct z; exact IH.
Qed.

(** [x] lies in the 0-branch and [y] in the 1-branch below some common string *)
Definition sep (x y : list bool) : Prop :=
  exists c, prefix_of (c ++ [false]) x /\ prefix_of (c ++ [true]) y.

Lemma incomp_cases x y : ~ prefix_of x y -> ~ prefix_of y x ->
  (bcmp x y = Lt /\ sep x y) \/ (bcmp x y = Gt /\ sep y x).
Proof.
  intros H1 H2. destruct (common_split x y H1 H2) as [s [[r1 E1] [r2 E2]]].
  remember (common x y) as c eqn:Hc. clear Hc H1 H2.
  rewrite <- app_assoc in E1, E2. cbn in E1, E2. subst x y.
  pose proof (bcmp_sep c s r1 r2) as B.
  destruct s; cbn [negb] in *; [right|left]; (split; [exact B|]); exists c; split.
  - exists r2. rewrite <- app_assoc. reflexivity.
  - exists r1. rewrite <- app_assoc. reflexivity.
  - exists r1. rewrite <- app_assoc. reflexivity.
  - exists r2. rewrite <- app_assoc. reflexivity.
Qed.

Lemma bcmp_eq_same_len x y : length x = length y -> bcmp x y = Eq -> x = y.
Proof.
  intros Hl Hc. destruct (list_eq_dec bool_dec x y) as [E|N]; [exact E|]. exfalso.
  destruct (incomp_cases x y) as [[B _]|[B _]]; try congruence.
  - intros H. apply N. apply prefix_of_same_len; [exact H | lia].
  - intros H. apply N. symmetry. apply prefix_of_same_len; [exact H | lia].
Qed.

Lemma same_len_incomp x y : length x = length y -> x <> y -> ~ prefix_of x y /\ ~ prefix_of y x.
Proof.
  intros Hl N. split; intros H; apply N; [|symmetry]; apply prefix_of_same_len; auto; lia.
Qed.

Lemma sep_lex x y x' y' : sep x y -> prefix_of x x' -> prefix_of y y' -> lex_lt x' y'.
Proof.
  intros [c [Hx Hy]] Hx' Hy'. apply (lex_lt_branches c); eapply prefix_of_trans; eassumption.
Qed.

(** for equal-length strings [bcmp] decides equality and the iteration order; for incomparable
    strings it is never [Eq] and agrees with the iteration order *)
Lemma bcmp_same_len_eq x y : length x = length y -> (bcmp x y = Eq <-> x = y).
Proof. intros Hl. split; [apply bcmp_eq_same_len; exact Hl | intros ->; apply bcmp_refl]. Qed.

Lemma bcmp_incomp_lt x y : ~ prefix_of x y -> ~ prefix_of y x -> (bcmp x y = Lt <-> lex_lt x y).
Proof.
  intros H1 H2. destruct (incomp_cases x y H1 H2) as [[B S]|[B S]]; split; intros H; try congruence.
  - eapply sep_lex; [exact S | apply prefix_of_refl..].
  - exfalso. apply (lex_lt_irrefl x). eapply lex_lt_trans; [exact H|].
    eapply sep_lex; [exact S | apply prefix_of_refl..].
Qed.

Lemma bcmp_incomp_neq x y : ~ prefix_of x y -> ~ prefix_of y x -> bcmp x y <> Eq.
Proof. intros H1 H2. destruct (incomp_cases x y H1 H2) as [[B _]|[B _]]; congruence. Qed.

Lemma bcmp_same_len_lt x y : length x = length y -> (bcmp x y = Lt <-> lex_lt x y).
Proof.
  intros Hl. destruct (list_eq_dec bool_dec x y) as [E|N].
  - subst y. rewrite bcmp_refl. split; [discriminate | intros H; exfalso; eapply lex_lt_irrefl; exact H].
  - destruct (same_len_incomp x y Hl N) as [H1 H2]. apply bcmp_incomp_lt; assumption.
Qed.

(* ------------------------------------------------------------------------------------------ *)
(** * Generic list facts *)

Lemma ss_app {A} (Rl : A -> A -> Prop) (l1 l2 : list A) :
  StronglySorted Rl l1 -> StronglySorted Rl l2 ->
  (forall a b, In a l1 -> In b l2 -> Rl a b) -> StronglySorted Rl (l1 ++ l2).
Proof.
  induction l1 as [|x l1 IH]; intros H1 H2 H; cbn; [exact H2|].
  inversion H1 as [|? ? Hs Hf]; subst. constructor.
  - apply IH; [exact Hs | exact H2 | intros a b Ha Hb; apply H; [right; exact Ha | exact Hb]].
  - apply Forall_app. split; [exact Hf|]. apply Forall_forall. intros b Hb.
    apply H; [left; reflexivity | exact Hb].
Qed.

Ltac inv_F2 :=
  repeat match goal with
  | H : Forall2 _ [] _ |- _ => inversion H; subst; clear H
  | H : Forall2 _ (_ :: _) _ |- _ => inversion H; subst; clear H
  end.

(** an invariant of the stack entries transfers to the emitted items (no termination needed) *)
Lemma run_inv {E I : Type} (expand : E -> option I * list E) (P : E -> Prop) (Q : I -> Prop) :
  (forall e o cs, P e -> expand e = (o, cs) -> Forall P cs /\ (forall x, o = Some x -> Q x)) ->
  forall n st out, Forall P st -> run E I expand n st = Some out -> Forall Q out.
Proof.
  intros H. induction n as [|n IH]; intros st out HP Hr; destruct st as [|e rest]; cbn [run] in Hr.
  - inversion Hr. constructor.
  - discriminate.
  - inversion Hr. constructor.
  - destruct (expand e) as [o cs] eqn:Hex.
    destruct (run E I expand n (rev cs ++ rest)) as [out'|] eqn:Hr'; [|discriminate].
    inversion Hr; subst. inversion HP as [|? ? He Hrest]; subst.
    destruct (H _ _ _ He Hex) as [Hcs Ho].
    assert (HQ : Forall Q out').
    { eapply IH; [|exact Hr']. apply Forall_app. split; [apply Forall_rev; exact Hcs | exact Hrest]. }
    destruct o as [x|]; cbn [opt_cons]; [constructor; [apply Ho; reflexivity | exact HQ] | exact HQ].
Qed.

(* ------------------------------------------------------------------------------------------ *)
Section UN.
Variables (pfx L R : Type).
Variables (peq contains : pfx -> pfx -> bool) (is_bit_set : pfx -> N -> bool)
          (plen : pfx -> N) (lcp : pfx -> pfx -> pfx) (pzero : pfx)
          (mcmp : pfx -> pfx -> comparison).
Variable bits : pfx -> list bool.
Variable ok : pfx -> Prop.
Hypothesis LAWS : prefix_laws pfx peq contains is_bit_set plen lcp pzero mcmp bits ok.

Notation treeL := (tree pfx L).
Notation treeR := (tree pfx R).
Notation to_right := (to_right pfx is_bit_set plen).
Notation uidx := (SetOps.uidx pfx L R).
Notation uentry := (SetOps.uentry pfx L R).
Notation uitem := (SetOps.uitem pfx L R).
Notation umitem := (SetOps.umitem pfx L R).
Notation lpmL := (SetOps.lpmL pfx L).
Notation lpmR := (SetOps.lpmR pfx R).
Arguments SetOps.UBoth {pfx L R}.
Arguments SetOps.UFirstL {pfx L R}.
Arguments SetOps.UFirstR {pfx L R}.
Arguments SetOps.UOnlyL {pfx L R}.
Arguments SetOps.UOnlyR {pfx L R}.
Arguments SetOps.ILeft {pfx L R}.
Arguments SetOps.IRight {pfx L R}.
Arguments SetOps.IBoth {pfx L R}.
Notation ni := (SetOps.u_next_indices pfx L R contains plen pzero mcmp).
Notation first_l := (SetOps.u_next_first_l pfx L R contains is_bit_set plen pzero mcmp).
Notation first_r := (SetOps.u_next_first_r pfx L R contains is_bit_set plen pzero mcmp).
Notation only_l := (SetOps.u_only_l pfx L R).
Notation only_r := (SetOps.u_only_r pfx L R).
Notation extend := (SetOps.u_extend_lpm pfx L R).
Notation u_get_next := (SetOps.u_get_next pfx L R).
Notation u_expand := (SetOps.u_expand pfx L R contains is_bit_set plen pzero mcmp).
Notation um_expand := (SetOps.um_expand pfx L R contains is_bit_set plen pzero mcmp).
Notation union := (SetOps.union pfx L R contains is_bit_set plen pzero mcmp).
Notation union_mut := (SetOps.union_mut pfx L R contains is_bit_set plen pzero mcmp).
Notation so_fuel := (SetOps.so_fuel pfx L R).

Definition ikey (it : uitem) : list bool :=
  bits (match it with ILeft p _ _ | IRight p _ _ | IBoth p _ _ => p end).
Definition ilt (i j : uitem) : Prop := lex_lt (ikey i) (ikey j).


(* ------------------------------------------------------------------------------------------ *)
(** * Facts generic in the value type (used at [L] and at [R]) *)

Section Gen.
Variable T : Type.
Notation treeT := (tree pfx T).
Notation wfT := (wf_under pfx T bits ok).
Notation keyT := (TrieWf.key pfx T bits).
Notation is_lpmT := (Lookup.is_lpm pfx T bits).
Notation no_coverT := (Lookup.no_cover pfx T bits).

(** the key of the root node *)
Definition rk (t : treeT) : list bool := bits (tpfx pfx T pzero t).
(** a non-empty subtree, well-formed under its own root key *)
Definition good (t : treeT) : Prop := is_node t = true /\ wfT (rk t) t.
(** the stored match accounts for the node's own value *)
Definition cons (t : treeT) (a : option (pfx * T)) : Prop :=
  match pv t with Some o => a = Some o | None => True end.

Definition under (b : list bool) (A : list (pfx * T)) : Prop :=
  forall e, In e A -> prefix_of b (bits (fst e)).
Definition below (k : list bool) (A : list (pfx * T)) : Prop :=
  forall e, In e A -> prefix_of k (bits (fst e)) /\ bits (fst e) <> k.

Lemma is_node_false (t : treeT) : is_node t = false -> t = Leaf.
Proof. destruct t; [reflexivity | discriminate]. Qed.

Lemma good_intro b (t : treeT) : wfT b t -> is_node t = true -> good t.
Proof.
  destruct t as [|i p v l r]; [discriminate|]. intros H _. split; [reflexivity|].
  unfold rk. cbn [tpfx]. eapply wf_self; exact H.
Qed.

Lemma good_ok (t : treeT) : good t -> ok (tpfx pfx T pzero t).
Proof. destruct t as [|i p v l r]; intros [Hn Hw]; [discriminate|]. cbn in Hw. cbn. tauto. Qed.

Lemma good_under (t : treeT) : good t -> under (rk t) (entries t).
Proof. intros [_ Hw] e He. eapply (entries_under pfx T bits ok); eassumption. Qed.

Lemma under_weaken b b' A : prefix_of b' b -> under b A -> under b' A.
Proof. intros H HA e He. eapply prefix_of_trans; [exact H | apply HA; exact He]. Qed.

Lemma under_app b A1 A2 : under b A1 -> under b A2 -> under b (A1 ++ A2).
Proof. intros H1 H2 e He. apply in_app_or in He. destruct He; auto. Qed.

Lemma under_nil b : under b [].
Proof. intros e []. Qed.

Lemma under_below k s A : under (k ++ [s]) A -> below k A.
Proof.
  intros H e He. specialize (H e He). split; [eapply below_prefix; exact H|].
  intros E. eapply below_neq; [exact H | exact E].
Qed.

Lemma below_app k A1 A2 : below k A1 -> below k A2 -> below k (A1 ++ A2).
Proof. intros H1 H2 e He. apply in_app_or in He. destruct He; auto. Qed.

Lemma below_proper k k' A : prefix_of k k' -> k' <> k -> under k' A -> below k A.
Proof.
  intros Hp Hn HA e He. specialize (HA e He). split; [eapply prefix_of_trans; eassumption|].
  intros E. rewrite E in HA. apply Hn. apply prefix_of_antisym; assumption.
Qed.

Lemma good_node_inv i p v (l r : treeT) :
  good (Node i p v l r) ->
  ok p /\ wfT (bits p ++ [false]) l /\ wfT (bits p ++ [true]) r.
Proof. intros [_ Hw]. unfold rk in Hw. cbn in Hw. tauto. Qed.

Lemma cons_orelse (t : treeT) a : cons t (orelse (pv t) a).
Proof. unfold cons. destruct (pv t); reflexivity. Qed.

(** ** annotations: the most specific covering entry of [B], or else the inherited match *)
Definition ann_ok (B : list (pfx * T)) (inh : option (pfx * T)) (p : pfx) (ann : option (pfx * T)) : Prop :=
  (exists e, ann = Some e /\ is_lpmT B p e) \/ (no_coverT B p /\ ann = inh).

Lemma ann_ext B B' inh p ann :
  (forall e, In e B -> In e B') ->
  (forall e, In e B' -> prefix_of (bits (fst e)) (bits p) -> In e B) ->
  ann_ok B inh p ann -> ann_ok B' inh p ann.
Proof.
  intros Hi Hc [[e [-> [Hin [Hcov Hmax]]]]|[Hnc ->]].
  - left. exists e. split; [reflexivity|]. split; [apply Hi; exact Hin|]. split; [exact Hcov|].
    intros e' He' Hc'. apply Hmax; [apply Hc; assumption | exact Hc'].
  - right. split; [|reflexivity]. intros e He Hc'. apply (Hnc e); [apply Hc; assumption | exact Hc'].
Qed.

Lemma ann_inh B inh inh' p ann :
  (inh = inh' \/ ~ no_coverT B p) -> ann_ok B inh p ann -> ann_ok B inh' p ann.
Proof.
  intros H [Hl|[Hnc ->]]; [left; exact Hl|].
  destruct H as [->|H]; [right; split; [exact Hnc | reflexivity] | contradiction].
Qed.

(** adding the own entry [(po, y)] (key [k]) on top of entries strictly below [k] *)
Lemma ann_own po y B inh' p ann :
  below (bits po) B -> prefix_of (bits po) (bits p) ->
  ann_ok B (Some (po, y)) p ann -> ann_ok ((po, y) :: B) inh' p ann.
Proof.
  intros Hb Hp [[e [-> [Hin [Hcov Hmax]]]]|[Hnc ->]]; left.
  - exists e. split; [reflexivity|]. split; [right; exact Hin|]. split; [exact Hcov|].
    intros e' [<-|He'] Hc'; [|apply Hmax; assumption].
    unfold TrieWf.key. cbn [fst]. apply prefix_of_len. apply (Hb e Hin).
  - exists (po, y). split; [reflexivity|]. split; [left; reflexivity|]. split; [exact Hp|].
    intros e' [<-|He'] Hc'; [apply le_n|]. exfalso. apply (Hnc e' He' Hc').
Qed.

Lemma ann_nil inh p : ann_ok [] inh p inh.
Proof. right. split; [intros e []|reflexivity]. Qed.

Lemma no_cover_below k B p : below k B -> bits p = k -> no_coverT B p.
Proof.
  intros Hb E e He Hc. destruct (Hb e He) as [H1 H2]. apply H2.
  unfold TrieWf.key in Hc. rewrite E in Hc. apply prefix_of_antisym; assumption.
Qed.

(** the own value of a good node covers everything below its root key *)
Lemma orelse_inh (t : treeT) a :
  good t -> orelse (pv t) a = a \/ forall q, prefix_of (rk t) (bits q) -> ~ no_coverT (entries t) q.
Proof.
  destruct t as [|i p v l r]; intros [Hn Hw]; [discriminate|]. destruct v as [x|]; cbn [pv orelse].
  - right. intros q Hq Hnc. apply (Hnc (p, x)); [apply in_entries_own | exact Hq].
  - left. reflexivity.
Qed.

End Gen.

Arguments rk {T}.
Arguments good {T}.
Arguments cons {T}.
Arguments under {T}.
Arguments below {T}.
Arguments ann_ok {T}.

Notation wfL := (wf_under pfx L bits ok).
Notation wfR := (wf_under pfx R bits ok).

(* ------------------------------------------------------------------------------------------ *)
(** * The contribution of a stack entry *)

Definition item_ok (A : list (pfx * L)) (B : list (pfx * R)) (la : lpmL) (ra : lpmR) (it : uitem) : Prop :=
  match it with
  | IBoth p l r => In (p, l) A /\ exists pr, In (pr, r) B /\ bits pr = bits p
  | ILeft p l ann => In (p, l) A /\ (forall e, In e B -> bits (fst e) <> bits p) /\ ann_ok B ra p ann
  | IRight p ann r => In (p, r) B /\ (forall e, In e A -> bits (fst e) <> bits p) /\ ann_ok A la p ann
  end.

(** [out] is the union of the entry lists [A] and [B], annotations relative to the inherited
    matches [la], [ra] *)
Definition uspec (A : list (pfx * L)) (B : list (pfx * R)) (la : lpmL) (ra : lpmR) (out : list uitem) : Prop :=
  StronglySorted ilt out /\
  (forall it, In it out -> item_ok A B la ra it) /\
  (forall e, In e A -> exists it, In it out /\ ikey it = bits (fst e)) /\
  (forall e, In e B -> exists it, In it out /\ ikey it = bits (fst e)).

Lemma item_key A B la ra it : item_ok A B la ra it ->
  (exists e, In e A /\ bits (fst e) = ikey it) \/ (exists e, In e B /\ bits (fst e) = ikey it).
Proof.
  destruct it as [p l ann|p ann r|p l r]; cbn; intros H.
  - left. exists (p, l). split; [apply H | reflexivity].
  - right. exists (p, r). split; [apply H | reflexivity].
  - left. exists (p, l). split; [apply H | reflexivity].
Qed.

Lemma uspec_under b A B la ra X :
  under b A -> under b B -> uspec A B la ra X -> forall it, In it X -> prefix_of b (ikey it).
Proof.
  intros HA HB (_ & Hi & _) it Hit.
  destruct (item_key _ _ _ _ _ (Hi it Hit)) as [[e [He <-]]|[e [He <-]]]; [apply HA | apply HB]; exact He.
Qed.

Lemma uspec_nil la ra : uspec [] [] la ra [].
Proof. split; [constructor|]. split; [intros it []|]. split; intros e []. Qed.

(** enlarging the operands by entries that do not cover the item's key *)
Lemma item_ok_mono A B A' B' la ra it :
  (forall e, In e A -> In e A') -> (forall e, In e B -> In e B') ->
  (forall e, In e A' -> prefix_of (bits (fst e)) (ikey it) -> In e A) ->
  (forall e, In e B' -> prefix_of (bits (fst e)) (ikey it) -> In e B) ->
  item_ok A B la ra it -> item_ok A' B' la ra it.
Proof.
  intros HA HB HA' HB'. destruct it as [p l ann|p ann r|p l r]; cbn [item_ok ikey] in *.
  - intros (H1 & H2 & H3). split; [apply HA; exact H1|]. split.
    + intros e He E. apply (H2 e); [|exact E]. apply HB'; [exact He|]. rewrite E. apply prefix_of_refl.
    + eapply ann_ext; [exact HB | exact HB' | exact H3].
  - intros (H1 & H2 & H3). split; [apply HB; exact H1|]. split.
    + intros e He E. apply (H2 e); [|exact E]. apply HA'; [exact He|]. rewrite E. apply prefix_of_refl.
    + eapply ann_ext; [exact HA | exact HA' | exact H3].
  - intros (H1 & pr & H2 & H3). split; [apply HA; exact H1|]. exists pr. split; [apply HB; exact H2 | exact H3].
Qed.

(** the two sides of a branching point *)
Lemma uspec_split c A1 B1 A2 B2 la ra X1 X2 :
  under (c ++ [false]) A1 -> under (c ++ [false]) B1 ->
  under (c ++ [true]) A2 -> under (c ++ [true]) B2 ->
  uspec A1 B1 la ra X1 -> uspec A2 B2 la ra X2 ->
  uspec (A1 ++ A2) (B1 ++ B2) la ra (X1 ++ X2).
Proof.
  intros HA1 HB1 HA2 HB2 U1 U2.
  pose proof (uspec_under _ _ _ _ _ _ HA1 HB1 U1) as K1.
  pose proof (uspec_under _ _ _ _ _ _ HA2 HB2 U2) as K2.
  destruct U1 as (Hs1 & Hi1 & Hca1 & Hcb1). destruct U2 as (Hs2 & Hi2 & Hca2 & Hcb2).
  split; [|split; [|split]].
  - apply ss_app; [exact Hs1 | exact Hs2|]. intros a b Ha Hb. unfold ilt.
    apply (lex_lt_branches c); [apply K1; exact Ha | apply K2; exact Hb].
  - intros it Hit. apply in_app_or in Hit. destruct Hit as [Hit|Hit].
    + apply (item_ok_mono A1 B1); [intros; apply in_or_app; auto | intros; apply in_or_app; auto | | | apply Hi1; exact Hit].
      * intros e He Hc. apply in_app_or in He. destruct He as [He|He]; [exact He|]. exfalso.
        apply (sides_disjoint c (ikey it)); [apply K1; exact Hit|].
        eapply prefix_of_trans; [apply (HA2 e He) | exact Hc].
      * intros e He Hc. apply in_app_or in He. destruct He as [He|He]; [exact He|]. exfalso.
        apply (sides_disjoint c (ikey it)); [apply K1; exact Hit|].
        eapply prefix_of_trans; [apply (HB2 e He) | exact Hc].
    + apply (item_ok_mono A2 B2); [intros; apply in_or_app; auto | intros; apply in_or_app; auto | | | apply Hi2; exact Hit].
      * intros e He Hc. apply in_app_or in He. destruct He as [He|He]; [|exact He]. exfalso.
        apply (sides_disjoint c (ikey it)); [|apply K2; exact Hit].
        eapply prefix_of_trans; [apply (HA1 e He) | exact Hc].
      * intros e He Hc. apply in_app_or in He. destruct He as [He|He]; [|exact He]. exfalso.
        apply (sides_disjoint c (ikey it)); [|apply K2; exact Hit].
        eapply prefix_of_trans; [apply (HB1 e He) | exact Hc].
  - intros e He. apply in_app_or in He. destruct He as [He|He].
    + destruct (Hca1 e He) as [it [Hit Ek]]. exists it. split; [apply in_or_app; left; exact Hit | exact Ek].
    + destruct (Hca2 e He) as [it [Hit Ek]]. exists it. split; [apply in_or_app; right; exact Hit | exact Ek].
  - intros e He. apply in_app_or in He. destruct He as [He|He].
    + destruct (Hcb1 e He) as [it [Hit Ek]]. exists it. split; [apply in_or_app; left; exact Hit | exact Ek].
    + destruct (Hcb2 e He) as [it [Hit Ek]]. exists it. split; [apply in_or_app; right; exact Hit | exact Ek].
Qed.

(** changing the inherited matches where they cannot matter *)
Lemma uspec_inh A B la ra la' ra' X :
  (la = la' \/ forall e q, In e B -> bits (fst e) = bits q -> ~ Lookup.no_cover pfx L bits A q) ->
  (ra = ra' \/ forall e q, In e A -> bits (fst e) = bits q -> ~ Lookup.no_cover pfx R bits B q) ->
  uspec A B la ra X -> uspec A B la' ra' X.
Proof.
  intros HL HR (Hs & Hi & Hca & Hcb). split; [exact Hs|]. split; [|split; assumption].
  intros it Hit. specialize (Hi it Hit). destruct it as [p l ann|p ann r|p l r]; cbn [item_ok] in *.
  - destruct Hi as (H1 & H2 & H3). split; [exact H1|]. split; [exact H2|].
    eapply ann_inh; [|exact H3]. destruct HR as [->|HR]; [left; reflexivity | right; apply (HR (p, l) p H1 eq_refl)].
  - destruct Hi as (H1 & H2 & H3). split; [exact H1|]. split; [exact H2|].
    eapply ann_inh; [|exact H3]. destruct HL as [->|HL]; [left; reflexivity | right; apply (HL (p, r) p H1 eq_refl)].
  - exact Hi.
Qed.

(** first item smaller than the rest *)
Lemma own_first k A B la ra X (it0 : uitem) :
  ikey it0 = k -> below k A -> below k B -> uspec A B la ra X -> Forall (ilt it0) X.
Proof.
  intros Ek HA HB (_ & Hi & _). apply Forall_forall. intros it Hit. unfold ilt. rewrite Ek.
  destruct (item_key _ _ _ _ _ (Hi it Hit)) as [[e [He <-]]|[e [He <-]]].
  - destruct (HA e He) as [H1 H2]. apply lex_lt_prefix; [exact H1 | congruence].
  - destruct (HB e He) as [H1 H2]. apply lex_lt_prefix; [exact H1 | congruence].
Qed.

Lemma compl_cons {T} (e0 : pfx * T) (A : list (pfx * T)) (it0 : uitem) X :
  ikey it0 = bits (fst e0) ->
  (forall e, In e A -> exists it, In it X /\ ikey it = bits (fst e)) ->
  forall e, In e (e0 :: A) -> exists it, In it (it0 :: X) /\ ikey it = bits (fst e).
Proof.
  intros E0 H e [<-|He]; [exists it0; split; [left; reflexivity | exact E0]|].
  destruct (H e He) as [it [Hit Ek]]. exists it. split; [right; exact Hit | exact Ek].
Qed.

Lemma compl_skip {T} (A : list (pfx * T)) (it0 : uitem) X :
  (forall e, In e A -> exists it, In it X /\ ikey it = bits (fst e)) ->
  forall e, In e A -> exists it, In it (it0 :: X) /\ ikey it = bits (fst e).
Proof.
  intros H e He. destruct (H e He) as [it [Hit Ek]]. exists it. split; [right; exact Hit | exact Ek].
Qed.

(** the node's own item on top of what lies strictly below its key *)
Lemma uspec_own_l pl x A B la' ra X :
  below (bits pl) A -> below (bits pl) B ->
  uspec A B (Some (pl, x)) ra X -> uspec ((pl, x) :: A) B la' ra (ILeft pl x ra :: X).
Proof.
  intros HA HB U. pose proof (own_first (bits pl) _ _ _ _ _ (ILeft pl x ra) eq_refl HA HB U) as Hf.
  destruct U as (Hs & Hi & Hca & Hcb). split; [|split; [|split]].
  - constructor; assumption.
  - intros it [<-|Hit].
    + cbn [item_ok]. split; [left; reflexivity|]. split.
      * intros e He. apply (HB e He).
      * right. split; [eapply no_cover_below; [exact HB | reflexivity] | reflexivity].
    + specialize (Hi it Hit). destruct it as [p l ann|p ann r|p l r]; cbn [item_ok] in *.
      * destruct Hi as (H1 & H2 & H3). split; [right; exact H1|]. split; assumption.
      * destruct Hi as (H1 & H2 & H3). destruct (HB _ H1) as [Hp Hn]. cbn [fst] in Hp, Hn.
        split; [exact H1|]. split.
        -- intros e [<-|He]; [cbn [fst]; congruence | apply H2; exact He].
        -- apply ann_own; assumption.
      * destruct Hi as (H1 & H2). split; [right; exact H1 | exact H2].
  - apply compl_cons; [reflexivity | exact Hca].
  - apply compl_skip; exact Hcb.
Qed.

Lemma uspec_own_r pr y A B la ra' X :
  below (bits pr) A -> below (bits pr) B ->
  uspec A B la (Some (pr, y)) X -> uspec A ((pr, y) :: B) la ra' (IRight pr la y :: X).
Proof.
  intros HA HB U. pose proof (own_first (bits pr) _ _ _ _ _ (IRight pr la y) eq_refl HA HB U) as Hf.
  destruct U as (Hs & Hi & Hca & Hcb). split; [|split; [|split]].
  - constructor; assumption.
  - intros it [<-|Hit].
    + cbn [item_ok]. split; [left; reflexivity|]. split.
      * intros e He. apply (HA e He).
      * right. split; [eapply no_cover_below; [exact HA | reflexivity] | reflexivity].
    + specialize (Hi it Hit). destruct it as [p l ann|p ann r|p l r]; cbn [item_ok] in *.
      * destruct Hi as (H1 & H2 & H3). destruct (HA _ H1) as [Hp Hn]. cbn [fst] in Hp, Hn.
        split; [exact H1|]. split.
        -- intros e [<-|He]; [cbn [fst]; congruence | apply H2; exact He].
        -- apply ann_own; assumption.
      * destruct Hi as (H1 & H2 & H3). split; [right; exact H1|]. split; assumption.
      * destruct Hi as (H1 & pr' & H2 & H3). split; [exact H1|]. exists pr'. split; [right; exact H2 | exact H3].
  - apply compl_skip; exact Hca.
  - apply compl_cons; [reflexivity | exact Hcb].
Qed.

Lemma uspec_own_both pl pr x y A B la' ra' X :
  bits pr = bits pl -> below (bits pl) A -> below (bits pl) B ->
  uspec A B (Some (pl, x)) (Some (pr, y)) X ->
  uspec ((pl, x) :: A) ((pr, y) :: B) la' ra' (IBoth pl x y :: X).
Proof.
  intros Epr HA HB U. pose proof (own_first (bits pl) _ _ _ _ _ (IBoth pl x y) eq_refl HA HB U) as Hf.
  destruct U as (Hs & Hi & Hca & Hcb). split; [|split; [|split]].
  - constructor; assumption.
  - intros it [<-|Hit].
    + cbn [item_ok]. split; [left; reflexivity|]. exists pr. split; [left; reflexivity | exact Epr].
    + specialize (Hi it Hit). destruct it as [p l ann|p ann r|p l r]; cbn [item_ok] in *.
      * destruct Hi as (H1 & H2 & H3). destruct (HA _ H1) as [Hp Hn]. cbn [fst] in Hp, Hn.
        split; [right; exact H1|]. split.
        -- intros e [<-|He]; [cbn [fst]; congruence | apply H2; exact He].
        -- apply ann_own; [rewrite Epr; exact HB | rewrite Epr; exact Hp | exact H3].
      * destruct Hi as (H1 & H2 & H3). destruct (HB _ H1) as [Hp Hn]. cbn [fst] in Hp, Hn.
        split; [right; exact H1|]. split.
        -- intros e [<-|He]; [cbn [fst]; congruence | apply H2; exact He].
        -- apply ann_own; assumption.
      * destruct Hi as (H1 & pr' & H2 & H3). split; [right; exact H1|]. exists pr'. split; [right; exact H2 | exact H3].
  - apply compl_cons; [reflexivity | exact Hca].
  - apply compl_cons; [cbn [ikey fst]; symmetry; exact Epr | exact Hcb].
Qed.

(* ------------------------------------------------------------------------------------------ *)
(** * The laws, specialised *)

Lemma c_true p q : ok p -> ok q -> contains p q = true -> prefix_of (bits p) (bits q).
Proof. apply (contains_true pfx peq contains is_bit_set plen lcp pzero mcmp bits ok LAWS). Qed.
Lemma c_false p q : ok p -> ok q -> contains p q = false -> ~ prefix_of (bits p) (bits q).
Proof. apply (contains_false pfx peq contains is_bit_set plen lcp pzero mcmp bits ok LAWS). Qed.
Lemma tr_spec p q : ok p -> ok q -> to_right p q = nth (length (bits p)) (bits q) false.
Proof. apply (to_right_spec pfx peq contains is_bit_set plen lcp pzero mcmp bits ok LAWS). Qed.
Lemma plen_spec p : ok p -> plen p = N.of_nat (length (bits p)).
Proof. apply (plen_bits pfx peq contains is_bit_set plen lcp pzero mcmp bits ok LAWS). Qed.
Lemma mcmp_bcmp p q : ok p -> ok q -> mcmp p q = bcmp (bits p) (bits q).
Proof. apply (mcmp_spec pfx peq contains is_bit_set plen lcp pzero mcmp bits ok LAWS). Qed.

Lemma bcmp_class x y : ~ prefix_of x y -> ~ prefix_of y x ->
  match bcmp x y with Lt => sep x y | Gt => sep y x | Eq => False end.
Proof. intros H1 H2. destruct (incomp_cases x y H1 H2) as [[-> S]|[-> S]]; exact S. Qed.

(* ------------------------------------------------------------------------------------------ *)
(** * Stack invariant and per-entry relation *)

Definition okI (ix : uidx) : Prop :=
  match ix with
  | UBoth l r => good l /\ good r /\ rk l = rk r
  | UFirstL l r => good l /\ good r /\ prefix_of (rk l) (rk r) /\ rk l <> rk r
  | UFirstR l r => good l /\ good r /\ prefix_of (rk r) (rk l) /\ rk r <> rk l
  | UOnlyL l => good l
  | UOnlyR r => good r
  end.
Definition consI (ix : uidx) (la : lpmL) (ra : lpmR) : Prop :=
  match ix with
  | UBoth l r => cons l la /\ cons r ra
  | UFirstL l _ | UOnlyL l => cons l la
  | UFirstR _ r | UOnlyR r => cons r ra
  end.
Definition okE (e : uentry) : Prop := let '(ix, la, ra) := e in okI ix /\ consI ix la ra.

Definition Rel (e : uentry) (out : list uitem) : Prop :=
  let '(ix, la, ra) := e in
  match ix with
  | UBoth l r | UFirstL l r | UFirstR l r => uspec (entries l) (entries r) la ra out
  | UOnlyL l => uspec (entries l) [] la ra out
  | UOnlyR r => uspec [] (entries r) la ra out
  end.

Definition isz (ix : uidx) : nat :=
  match ix with
  | UBoth l r | UFirstL l r | UFirstR l r => tsize l + tsize r
  | UOnlyL l => tsize l
  | UOnlyR r => tsize r
  end.
Definition esz (e : uentry) : nat := isz (fst (fst e)).

Lemma extend_app la ra xs ys : extend la ra (xs ++ ys) = extend la ra xs ++ extend la ra ys.
Proof. unfold SetOps.u_extend_lpm. apply map_app. Qed.

Lemma extend_cons la ra x xs : extend la ra (x :: xs) = extend la ra [x] ++ extend la ra xs.
Proof. reflexivity. Qed.

Lemma extend_ok la ra xs : Forall okI xs -> Forall okE (extend la ra xs).
Proof.
  induction 1 as [|x xs Hx _ IH]; [constructor|]. rewrite extend_cons. apply Forall_app. split; [|exact IH].
  constructor; [|constructor]. destruct x; cbn [okE okI consI]; (split; [exact Hx|]);
    repeat split; apply cons_orelse.
Qed.

Lemma extend_size la ra xs : msize uentry esz (extend la ra xs) = list_sum (map isz xs).
Proof.
  unfold msize, SetOps.u_extend_lpm. rewrite map_map. f_equal. apply map_ext. intros x. destruct x; reflexivity.
Qed.

Lemma inh_l (a : treeL) la (B : list (pfx * R)) :
  good a -> under (rk a) B ->
  orelse (pv a) la = la \/
  forall e q, In e B -> bits (fst e) = bits q -> ~ Lookup.no_cover pfx L bits (entries a) q.
Proof.
  intros Ga HB. destruct (orelse_inh L a la Ga) as [E|H]; [left; exact E|].
  right. intros e q He Eq. apply H. rewrite <- Eq. apply HB. exact He.
Qed.
Lemma inh_r (b : treeR) ra (A : list (pfx * L)) :
  good b -> under (rk b) A ->
  orelse (pv b) ra = ra \/
  forall e q, In e A -> bits (fst e) = bits q -> ~ Lookup.no_cover pfx R bits (entries b) q.
Proof.
  intros Gb HA. destruct (orelse_inh R b ra Gb) as [E|H]; [left; exact E|].
  right. intros e q He Eq. apply H. rewrite <- Eq. apply HA. exact He.
Qed.

(* ------------------------------------------------------------------------------------------ *)
(** * [next_indices]: classification of a pair of subtrees *)

Inductive ni_class (a : treeL) (b : treeR) : list uidx -> Prop :=
| NC_none : is_node a = false -> is_node b = false -> ni_class a b []
| NC_l : good a -> is_node b = false -> ni_class a b [UOnlyL a]
| NC_r : is_node a = false -> good b -> ni_class a b [UOnlyR b]
| NC_both : good a -> good b -> rk a = rk b -> ni_class a b [UBoth a b]
| NC_fl : good a -> good b -> prefix_of (rk a) (rk b) -> rk a <> rk b -> ni_class a b [UFirstL a b]
| NC_fr : good a -> good b -> prefix_of (rk b) (rk a) -> rk b <> rk a -> ni_class a b [UFirstR a b]
| NC_lt : good a -> good b -> sep (rk a) (rk b) -> ni_class a b [UOnlyR b; UOnlyL a]
| NC_gt : good a -> good b -> sep (rk b) (rk a) -> ni_class a b [UOnlyL a; UOnlyR b].

Lemma ni_classify ba bb (a : treeL) (b : treeR) : wfL ba a -> wfR bb b -> ni_class a b (ni a b).
Proof.
  intros Ha Hb. unfold SetOps.u_next_indices.
  destruct (is_node a) eqn:Na; destruct (is_node b) eqn:Nb.
  - pose proof (good_intro L _ _ Ha Na) as Ga. pose proof (good_intro R _ _ Hb Nb) as Gb.
    pose proof (good_ok L a Ga) as Oa. pose proof (good_ok R b Gb) as Ob.
    rewrite (mcmp_bcmp _ _ Oa Ob). fold (rk a). fold (rk b).
    destruct (N.eqb_spec (plen (tpfx pfx L pzero a)) (plen (tpfx pfx R pzero b))) as [El|Nl].
    + assert (Hlen : length (rk a) = length (rk b)).
      { rewrite (plen_spec _ Oa), (plen_spec _ Ob) in El. unfold rk. lia. }
      destruct (list_eq_dec bool_dec (rk a) (rk b)) as [E|N].
      * rewrite E, bcmp_refl. apply NC_both; assumption.
      * destruct (same_len_incomp _ _ Hlen N) as [H1 H2].
        pose proof (bcmp_class _ _ H1 H2) as C.
        destruct (bcmp (rk a) (rk b)); [contradiction | apply NC_lt; assumption | apply NC_gt; assumption].
    + assert (Hlen : length (rk a) <> length (rk b)).
      { rewrite (plen_spec _ Oa), (plen_spec _ Ob) in Nl. unfold rk. lia. }
      destruct (contains (tpfx pfx L pzero a) (tpfx pfx R pzero b)) eqn:C1.
      { apply NC_fl; try assumption; [apply c_true; assumption | congruence]. }
      destruct (contains (tpfx pfx R pzero b) (tpfx pfx L pzero a)) eqn:C2.
      { apply NC_fr; try assumption; [apply c_true; assumption | congruence]. }
      pose proof (bcmp_class (rk a) (rk b) (c_false _ _ Oa Ob C1) (c_false _ _ Ob Oa C2)) as C.
      destruct (bcmp (rk a) (rk b)); [contradiction | apply NC_lt; assumption | apply NC_gt; assumption].
  - apply NC_l; [eapply good_intro; eassumption | assumption].
  - apply NC_r; [assumption | eapply good_intro; eassumption].
  - apply NC_none; assumption.
Qed.

Lemma class_ok a b xs : ni_class a b xs -> Forall okI xs.
Proof. intros []; repeat (apply Forall_cons || apply Forall_nil); cbn [okI]; auto. Qed.

Lemma class_spec a b xs la ra : ni_class a b xs ->
  forall ls, Forall2 Rel (rev (extend la ra xs)) ls -> uspec (entries a) (entries b) la ra (concat ls).
Proof.
  intros C ls HF. destruct C as [Na Nb|Ga Nb|Na Gb|Ga Gb E|Ga Gb Hp Hn|Ga Gb Hp Hn|Ga Gb S|Ga Gb S];
    cbn [SetOps.u_extend_lpm map rev app] in HF; inv_F2; cbn [concat Rel] in *; rewrite ?app_nil_r;
    try (apply is_node_false in Na; subst a; cbn [entries]);
    try (apply is_node_false in Nb; subst b; cbn [entries]).
  - apply uspec_nil.
  - match goal with H : uspec _ _ _ _ _ |- _ => eapply uspec_inh; [| |exact H] end.
    + right. intros e q [].
    + left. reflexivity.
  - match goal with H : uspec _ _ _ _ _ |- _ => eapply uspec_inh; [| |exact H] end.
    + left. reflexivity.
    + right. intros e q [].
  - match goal with H : uspec _ _ _ _ _ |- _ => eapply uspec_inh; [| |exact H] end.
    + apply inh_l; [exact Ga|]. rewrite E. apply good_under. exact Gb.
    + apply inh_r; [exact Gb|]. rewrite <- E. apply good_under. exact Ga.
  - match goal with H : uspec _ _ _ _ _ |- _ => eapply uspec_inh; [| |exact H] end.
    + apply inh_l; [exact Ga|]. eapply under_weaken; [exact Hp | apply good_under; exact Gb].
    + left. reflexivity.
  - match goal with H : uspec _ _ _ _ _ |- _ => eapply uspec_inh; [| |exact H] end.
    + left. reflexivity.
    + apply inh_r; [exact Gb|]. eapply under_weaken; [exact Hp | apply good_under; exact Ga].
  - destruct S as [c [Sa Sb]].
    match goal with H1 : uspec (entries a) [] _ _ ?y1, H2 : uspec [] (entries b) _ _ ?y2 |- _ =>
      pose proof (uspec_split c (entries a) [] [] (entries b) la ra y1 y2) as U;
      rewrite app_nil_r in U; apply U; clear U;
      [ eapply under_weaken; [exact Sa | apply good_under; exact Ga] | apply under_nil | apply under_nil
      | eapply under_weaken; [exact Sb | apply good_under; exact Gb]
      | eapply uspec_inh; [| |exact H1] | eapply uspec_inh; [| |exact H2] ] end.
    + right. intros e q [].
    + left. reflexivity.
    + left. reflexivity.
    + right. intros e q [].
  - destruct S as [c [Sb Sa]].
    match goal with H1 : uspec (entries a) [] _ _ ?y1, H2 : uspec [] (entries b) _ _ ?y2 |- _ =>
      pose proof (uspec_split c [] (entries b) (entries a) [] la ra y2 y1) as U;
      rewrite app_nil_r in U; apply U; clear U;
      [ apply under_nil | eapply under_weaken; [exact Sb | apply good_under; exact Gb]
      | eapply under_weaken; [exact Sa | apply good_under; exact Ga] | apply under_nil
      | eapply uspec_inh; [| |exact H2] | eapply uspec_inh; [| |exact H1] ] end.
    + left. reflexivity.
    + right. intros e q [].
    + right. intros e q [].
    + left. reflexivity.
Qed.

(* ------------------------------------------------------------------------------------------ *)
(** * The children of each kind of entry *)

Lemma only_l_spec il pl vl (ll lr : treeL) :
  good (Node il pl vl ll lr) ->
  Forall okI (only_l (Node il pl vl ll lr)) /\
  forall la ra ls, Forall2 Rel (rev (extend la ra (only_l (Node il pl vl ll lr)))) ls ->
    uspec (entries ll ++ entries lr) [] la ra (concat ls).
Proof.
  intros G. destruct (good_node_inv L _ _ _ _ _ G) as (Op & Wl & Wr).
  unfold SetOps.u_only_l. cbn [tleft tright].
  assert (Hone : forall t : treeL, good t -> forall la ra y,
            Rel (UOnlyL t, orelse (pv t) la, ra) y -> uspec (entries t) [] la ra y).
  { intros t Gt la ra y H. cbn [Rel] in H. eapply uspec_inh; [| |exact H]; [right; intros e q [] | left; reflexivity]. }
  destruct (is_node ll) eqn:Nl; destruct (is_node lr) eqn:Nr;
    try (apply is_node_false in Nl; subst ll); try (apply is_node_false in Nr; subst lr);
    cbn [app entries]; (split; [repeat (apply Forall_cons || apply Forall_nil); cbn [okI]; eauto using good_intro|]);
    intros la ra ls HF; cbn [SetOps.u_extend_lpm map rev app] in HF; inv_F2; cbn [concat]; rewrite ?app_nil_r.
  - match goal with H1 : Rel (UOnlyL ll, _, _) ?y1, H2 : Rel (UOnlyL lr, _, _) ?y2 |- _ =>
      pose proof (uspec_split (bits pl) (entries ll) [] (entries lr) [] la ra y1 y2) as U; cbn [app] in U; apply U; clear U;
      [ intros e He; eapply (entries_under pfx L bits ok); eassumption | apply under_nil
      | intros e He; eapply (entries_under pfx L bits ok); eassumption | apply under_nil
      | apply Hone; [eapply good_intro; eassumption | exact H1]
      | apply Hone; [eapply good_intro; eassumption | exact H2] ] end.
  - apply Hone; [eapply good_intro; eassumption | assumption].
  - apply Hone; [eapply good_intro; eassumption | assumption].
  - apply uspec_nil.
Qed.

Lemma only_r_spec ir pr vr (rl rr : treeR) :
  good (Node ir pr vr rl rr) ->
  Forall okI (only_r (Node ir pr vr rl rr)) /\
  forall la ra ls, Forall2 Rel (rev (extend la ra (only_r (Node ir pr vr rl rr)))) ls ->
    uspec [] (entries rl ++ entries rr) la ra (concat ls).
Proof.
  intros G. destruct (good_node_inv R _ _ _ _ _ G) as (Op & Wl & Wr).
  unfold SetOps.u_only_r. cbn [tleft tright].
  assert (Hone : forall t : treeR, good t -> forall la ra y,
            Rel (UOnlyR t, la, orelse (pv t) ra) y -> uspec [] (entries t) la ra y).
  { intros t Gt la ra y H. cbn [Rel] in H. eapply uspec_inh; [| |exact H]; [left; reflexivity | right; intros e q []]. }
  destruct (is_node rl) eqn:Nl; destruct (is_node rr) eqn:Nr;
    try (apply is_node_false in Nl; subst rl); try (apply is_node_false in Nr; subst rr);
    cbn [app entries]; (split; [repeat (apply Forall_cons || apply Forall_nil); cbn [okI]; eauto using good_intro|]);
    intros la ra ls HF; cbn [SetOps.u_extend_lpm map rev app] in HF; inv_F2; cbn [concat]; rewrite ?app_nil_r.
  - match goal with H1 : Rel (UOnlyR rl, _, _) ?y1, H2 : Rel (UOnlyR rr, _, _) ?y2 |- _ =>
      pose proof (uspec_split (bits pr) [] (entries rl) [] (entries rr) la ra y1 y2) as U; cbn [app] in U; apply U; clear U;
      [ apply under_nil | intros e He; eapply (entries_under pfx R bits ok); eassumption
      | apply under_nil | intros e He; eapply (entries_under pfx R bits ok); eassumption
      | apply Hone; [eapply good_intro; eassumption | exact H1]
      | apply Hone; [eapply good_intro; eassumption | exact H2] ] end.
  - apply Hone; [eapply good_intro; eassumption | assumption].
  - apply Hone; [eapply good_intro; eassumption | assumption].
  - apply uspec_nil.
Qed.

Lemma first_l_spec il pl vl (ll lr : treeL) (r : treeR) :
  good (Node il pl vl ll lr) -> good r -> prefix_of (bits pl) (rk r) -> bits pl <> rk r ->
  Forall okI (first_l (Node il pl vl ll lr) r) /\
  forall la ra ls, Forall2 Rel (rev (extend la ra (first_l (Node il pl vl ll lr) r))) ls ->
    uspec (entries ll ++ entries lr) (entries r) la ra (concat ls).
Proof.
  intros G Gr Hp Hn. destruct (good_node_inv L _ _ _ _ _ G) as (Op & Wl & Wr).
  pose proof (good_ok R r Gr) as Or.
  pose proof (ni_classify _ _ ll r Wl (proj2 Gr)) as Cl.
  pose proof (ni_classify _ _ lr r Wr (proj2 Gr)) as Cr.
  assert (Hside : prefix_of (bits pl ++ [to_right pl (tpfx pfx R pzero r)]) (rk r)).
  { rewrite (tr_spec _ _ Op Or). apply proper_ext; [exact Hp | congruence]. }
  assert (Ul : under (bits pl ++ [false]) (entries ll)).
  { intros e He. eapply (entries_under pfx L bits ok); eassumption. }
  assert (Ur : under (bits pl ++ [true]) (entries lr)).
  { intros e He. eapply (entries_under pfx L bits ok); eassumption. }
  unfold SetOps.u_next_first_l. cbn [tleft tright tpfx].
  destruct (is_node ll) eqn:Nl; destruct (is_node lr) eqn:Nr.
  - destruct (to_right pl (tpfx pfx R pzero r)) eqn:S.
    + split.
      * apply Forall_app. split; [eapply class_ok; exact Cr|].
        apply Forall_cons; [|apply Forall_nil]. cbn [okI]. eapply good_intro; eassumption.
      * intros la ra ls HF. rewrite extend_app, rev_app_distr in HF.
        change (rev (extend la ra [UOnlyL ll])) with [((UOnlyL ll : uidx), orelse (pv ll) la, ra)] in HF.
        cbn [app] in HF. inversion HF as [|e0 y1 st ls' H1 HF']; subst. cbn [concat].
        pose proof (class_spec _ _ _ la ra Cr _ HF') as U2.
        pose proof (uspec_split (bits pl) (entries ll) [] (entries lr) (entries r) la ra y1 (concat ls')) as U.
        cbn [app] in U. apply U; clear U; try assumption; [apply under_nil | |].
        -- eapply under_weaken; [exact Hside | apply good_under; exact Gr].
        -- cbn [Rel] in H1. eapply uspec_inh; [| |exact H1]; [right; intros e q [] | left; reflexivity].
    + split.
      * apply Forall_cons; [|eapply class_ok; exact Cl]. cbn [okI]. eapply good_intro; eassumption.
      * intros la ra ls HF. rewrite extend_cons, rev_app_distr in HF.
        change (rev (extend la ra [UOnlyL lr])) with [((UOnlyL lr : uidx), orelse (pv lr) la, ra)] in HF.
        apply Forall2_app_inv_l in HF. destruct HF as (l1 & l2 & HF1 & HF2 & ->).
        inv_F2. rewrite concat_app. cbn [concat]. rewrite app_nil_r.
        pose proof (class_spec _ _ _ la ra Cl _ HF1) as U1.
        match goal with H2 : Rel (UOnlyL lr, _, _) ?y2 |- _ =>
          pose proof (uspec_split (bits pl) (entries ll) (entries r) (entries lr) [] la ra (concat l1) y2) as U;
          rewrite app_nil_r in U; apply U; clear U; try assumption; [| apply under_nil |];
          [ eapply under_weaken; [exact Hside | apply good_under; exact Gr]
          | cbn [Rel] in H2; eapply uspec_inh; [| |exact H2]; [right; intros e q [] | left; reflexivity] ] end.
  - apply is_node_false in Nr. subst lr. split; [eapply class_ok; exact Cl|].
    intros la ra ls HF. cbn [entries]. rewrite app_nil_r. eapply class_spec; eassumption.
  - apply is_node_false in Nl. subst ll. split; [eapply class_ok; exact Cr|].
    intros la ra ls HF. cbn [entries app]. eapply class_spec; eassumption.
  - apply is_node_false in Nl. apply is_node_false in Nr. subst ll lr. split.
    + apply Forall_cons; [exact Gr | apply Forall_nil].
    + intros la ra ls HF. change (rev (extend la ra [UOnlyR r])) with [((UOnlyR r : uidx), la, orelse (pv r) ra)] in HF.
      inv_F2. cbn [entries app concat]. rewrite app_nil_r.
      match goal with H : Rel _ _ |- _ => cbn [Rel] in H; eapply uspec_inh; [| |exact H] end;
        [left; reflexivity | right; intros e q []].
Qed.

Lemma first_r_spec (l : treeL) ir pr vr (rl rr : treeR) :
  good l -> good (Node ir pr vr rl rr) -> prefix_of (bits pr) (rk l) -> bits pr <> rk l ->
  Forall okI (first_r l (Node ir pr vr rl rr)) /\
  forall la ra ls, Forall2 Rel (rev (extend la ra (first_r l (Node ir pr vr rl rr)))) ls ->
    uspec (entries l) (entries rl ++ entries rr) la ra (concat ls).
Proof.
  intros Gl G Hp Hn. destruct (good_node_inv R _ _ _ _ _ G) as (Op & Wl & Wr).
  pose proof (good_ok L l Gl) as Ol.
  pose proof (ni_classify _ _ l rl (proj2 Gl) Wl) as Cl.
  pose proof (ni_classify _ _ l rr (proj2 Gl) Wr) as Cr.
  assert (Hside : prefix_of (bits pr ++ [to_right pr (tpfx pfx L pzero l)]) (rk l)).
  { rewrite (tr_spec _ _ Op Ol). apply proper_ext; [exact Hp | congruence]. }
  assert (Ul : under (bits pr ++ [false]) (entries rl)).
  { intros e He. eapply (entries_under pfx R bits ok); eassumption. }
  assert (Ur : under (bits pr ++ [true]) (entries rr)).
  { intros e He. eapply (entries_under pfx R bits ok); eassumption. }
  unfold SetOps.u_next_first_r. cbn [tleft tright tpfx].
  destruct (is_node rl) eqn:Nl; destruct (is_node rr) eqn:Nr.
  - destruct (to_right pr (tpfx pfx L pzero l)) eqn:S.
    + split.
      * apply Forall_app. split; [eapply class_ok; exact Cr|].
        apply Forall_cons; [|apply Forall_nil]. cbn [okI]. eapply good_intro; eassumption.
      * intros la ra ls HF. rewrite extend_app, rev_app_distr in HF.
        change (rev (extend la ra [UOnlyR rl])) with [((UOnlyR rl : uidx), la, orelse (pv rl) ra)] in HF.
        cbn [app] in HF. inversion HF as [|e0 y1 st ls' H1 HF']; subst. cbn [concat].
        pose proof (class_spec _ _ _ la ra Cr _ HF') as U2.
        pose proof (uspec_split (bits pr) [] (entries rl) (entries l) (entries rr) la ra y1 (concat ls')) as U.
        cbn [app] in U. apply U; clear U; try assumption; [apply under_nil | |].
        -- eapply under_weaken; [exact Hside | apply good_under; exact Gl].
        -- cbn [Rel] in H1. eapply uspec_inh; [| |exact H1]; [left; reflexivity | right; intros e q []].
    + split.
      * apply Forall_cons; [|eapply class_ok; exact Cl]. cbn [okI]. eapply good_intro; eassumption.
      * intros la ra ls HF. rewrite extend_cons, rev_app_distr in HF.
        change (rev (extend la ra [UOnlyR rr])) with [((UOnlyR rr : uidx), la, orelse (pv rr) ra)] in HF.
        apply Forall2_app_inv_l in HF. destruct HF as (l1 & l2 & HF1 & HF2 & ->).
        inv_F2. rewrite concat_app. cbn [concat]. rewrite app_nil_r.
        pose proof (class_spec _ _ _ la ra Cl _ HF1) as U1.
        match goal with H2 : Rel (UOnlyR rr, _, _) ?y2 |- _ =>
          pose proof (uspec_split (bits pr) (entries l) (entries rl) [] (entries rr) la ra (concat l1) y2) as U;
          rewrite app_nil_r in U; apply U; clear U; try assumption; [| apply under_nil |];
          [ eapply under_weaken; [exact Hside | apply good_under; exact Gl]
          | cbn [Rel] in H2; eapply uspec_inh; [| |exact H2]; [left; reflexivity | right; intros e q []] ] end.
  - apply is_node_false in Nr. subst rr. split; [eapply class_ok; exact Cl|].
    intros la ra ls HF. cbn [entries]. rewrite app_nil_r. eapply class_spec; eassumption.
  - apply is_node_false in Nl. subst rl. split; [eapply class_ok; exact Cr|].
    intros la ra ls HF. cbn [entries app]. eapply class_spec; eassumption.
  - apply is_node_false in Nl. apply is_node_false in Nr. subst rl rr. split.
    + apply Forall_cons; [exact Gl | apply Forall_nil].
    + intros la ra ls HF. change (rev (extend la ra [UOnlyL l])) with [((UOnlyL l : uidx), orelse (pv l) la, ra)] in HF.
      inv_F2. cbn [entries app concat]. rewrite app_nil_r.
      match goal with H : Rel _ _ |- _ => cbn [Rel] in H; eapply uspec_inh; [| |exact H] end;
        [right; intros e q [] | left; reflexivity].
Qed.

Lemma both_spec il pl vl (ll lr : treeL) ir pr vr (rl rr : treeR) :
  good (Node il pl vl ll lr) -> good (Node ir pr vr rl rr) -> bits pl = bits pr ->
  Forall okI (ni lr rr ++ ni ll rl) /\
  forall la ra ls, Forall2 Rel (rev (extend la ra (ni lr rr ++ ni ll rl))) ls ->
    uspec (entries ll ++ entries lr) (entries rl ++ entries rr) la ra (concat ls).
Proof.
  intros Gl Gr E. destruct (good_node_inv L _ _ _ _ _ Gl) as (Opl & Wll & Wlr).
  destruct (good_node_inv R _ _ _ _ _ Gr) as (Opr & Wrl & Wrr).
  pose proof (ni_classify _ _ ll rl Wll Wrl) as Cl.
  pose proof (ni_classify _ _ lr rr Wlr Wrr) as Cr.
  split; [apply Forall_app; split; eapply class_ok; eassumption|].
  intros la ra ls HF. rewrite extend_app, rev_app_distr in HF.
  apply Forall2_app_inv_l in HF. destruct HF as (l1 & l2 & HF1 & HF2 & ->).
  rewrite concat_app. apply (uspec_split (bits pl)).
  - intros e He. eapply (entries_under pfx L bits ok); eassumption.
  - rewrite E. intros e He. eapply (entries_under pfx R bits ok); eassumption.
  - intros e He. eapply (entries_under pfx L bits ok); eassumption.
  - rewrite E. intros e He. eapply (entries_under pfx R bits ok); eassumption.
  - eapply class_spec; eassumption.
  - eapply class_spec; eassumption.
Qed.

(* ------------------------------------------------------------------------------------------ *)
(** * The local lemma of [run_rel] *)

Definition kids (ix : uidx) : list uidx :=
  match ix with
  | UBoth l r => ni (tright l) (tright r) ++ ni (tleft l) (tleft r)
  | UFirstL l r => first_l l r
  | UFirstR l r => first_r l r
  | UOnlyL l => only_l l
  | UOnlyR r => only_r r
  end.

Lemma u_expand_snd ix la ra : snd (u_expand (ix, la, ra)) = extend la ra (kids ix).
Proof. destruct ix; cbn [SetOps.u_expand snd kids]; try reflexivity. symmetry. apply extend_app. Qed.

Lemma um_expand_snd ix : snd (um_expand ix) = kids ix.
Proof. destruct ix; reflexivity. Qed.

Lemma good_leaf {T} : ~ good (@Leaf pfx T).
Proof. intros [H _]. discriminate. Qed.

Lemma wf_below_l {T} i p v (l r : tree pfx T) :
  good (Node i p v l r) -> below (bits p) (entries l ++ entries r).
Proof.
  intros G. destruct (good_node_inv T _ _ _ _ _ G) as (_ & Wl & Wr). apply below_app.
  - apply (under_below T _ false). intros e He. eapply (entries_under pfx T bits ok); eassumption.
  - apply (under_below T _ true). intros e He. eapply (entries_under pfx T bits ok); eassumption.
Qed.

Lemma cons_some {T} i p x (l r : tree pfx T) a : cons (Node i p (Some x) l r) a -> a = Some (p, x).
Proof. intros H. exact H. Qed.

Lemma kids_spec ix la ra : okI ix -> consI ix la ra ->
  Forall okI (kids ix) /\
  forall ls, Forall2 Rel (rev (extend la ra (kids ix))) ls ->
    Rel (ix, la, ra) (opt_cons uitem (fst (u_expand (ix, la, ra))) (concat ls)).
Proof.
  intros Hok Hc. destruct ix as [l r|l r|l r|l|r]; cbn [okI consI] in Hok, Hc.
  - destruct Hok as (Gl & Gr & E). destruct Hc as [Cl Cr].
    destruct l as [|il pl vl ll lr]; [destruct (good_leaf Gl)|].
    destruct r as [|ir pr vr rl rr]; [destruct (good_leaf Gr)|].
    unfold rk in E. cbn [tpfx] in E. cbn [kids tleft tright].
    destruct (both_spec _ _ vl _ _ _ _ vr _ _ Gl Gr E) as [K1 K2]. split; [exact K1|].
    intros ls HF. specialize (K2 la ra ls HF).
    pose proof (wf_below_l _ _ _ _ _ Gl) as Bl. pose proof (wf_below_l _ _ _ _ _ Gr) as Br.
    cbn [SetOps.u_expand fst tpfx tval Rel entries].
    destruct vl as [x|]; destruct vr as [y|]; cbn [is_some is_none negb SetOps.u_get_next opt_cons app].
    + apply cons_some in Cl. apply cons_some in Cr. subst la ra. rewrite <- E in Br.
      apply uspec_own_both; [symmetry; exact E | exact Bl | exact Br | exact K2].
    + apply cons_some in Cl. subst la. rewrite <- E in Br. apply uspec_own_l; assumption.
    + apply cons_some in Cr. subst ra. rewrite E in Bl. apply uspec_own_r; assumption.
    + exact K2.
  - destruct Hok as (Gl & Gr & Hp & Hn).
    destruct l as [|il pl vl ll lr]; [destruct (good_leaf Gl)|].
    unfold rk at 1 in Hp. unfold rk at 1 in Hn. cbn [tpfx] in Hp, Hn. cbn [kids].
    destruct (first_l_spec _ _ vl _ _ _ Gl Gr Hp Hn) as [K1 K2]. split; [exact K1|].
    intros ls HF. specialize (K2 la ra ls HF).
    pose proof (wf_below_l _ _ _ _ _ Gl) as Bl.
    assert (Br : below (bits pl) (entries r)).
    { apply (below_proper R _ (rk r)); [exact Hp | congruence | apply good_under; exact Gr]. }
    cbn [SetOps.u_expand fst tpfx tval Rel entries].
    destruct vl as [x|]; cbn [SetOps.u_get_next opt_cons app].
    + apply cons_some in Hc. subst la. apply uspec_own_l; assumption.
    + exact K2.
  - destruct Hok as (Gl & Gr & Hp & Hn).
    destruct r as [|ir pr vr rl rr]; [destruct (good_leaf Gr)|].
    unfold rk at 1 in Hp. unfold rk at 1 in Hn. cbn [tpfx] in Hp, Hn. cbn [kids].
    destruct (first_r_spec _ _ _ vr _ _ Gl Gr Hp Hn) as [K1 K2]. split; [exact K1|].
    intros ls HF. specialize (K2 la ra ls HF).
    pose proof (wf_below_l _ _ _ _ _ Gr) as Br.
    assert (Bl : below (bits pr) (entries l)).
    { apply (below_proper L _ (rk l)); [exact Hp | congruence | apply good_under; exact Gl]. }
    cbn [SetOps.u_expand fst tpfx tval Rel entries].
    destruct vr as [y|]; cbn [SetOps.u_get_next opt_cons app].
    + apply cons_some in Hc. subst ra. apply uspec_own_r; assumption.
    + exact K2.
  - destruct l as [|il pl vl ll lr]; [destruct (good_leaf Hok)|]. cbn [kids].
    destruct (only_l_spec _ _ vl _ _ Hok) as [K1 K2]. split; [exact K1|].
    intros ls HF. specialize (K2 la ra ls HF).
    pose proof (wf_below_l _ _ _ _ _ Hok) as Bl.
    cbn [SetOps.u_expand fst tpfx tval Rel entries].
    destruct vl as [x|]; cbn [SetOps.u_get_next opt_cons app].
    + apply cons_some in Hc. subst la. apply uspec_own_l; [exact Bl | intros e [] | exact K2].
    + exact K2.
  - destruct r as [|ir pr vr rl rr]; [destruct (good_leaf Hok)|]. cbn [kids].
    destruct (only_r_spec _ _ vr _ _ Hok) as [K1 K2]. split; [exact K1|].
    intros ls HF. specialize (K2 la ra ls HF).
    pose proof (wf_below_l _ _ _ _ _ Hok) as Br.
    cbn [SetOps.u_expand fst tpfx tval Rel entries].
    destruct vr as [y|]; cbn [SetOps.u_get_next opt_cons app].
    + apply cons_some in Hc. subst ra. apply uspec_own_r; [intros e [] | exact Br | exact K2].
    + exact K2.
Qed.

(* ------------------------------------------------------------------------------------------ *)
(** * Termination measure *)

Lemma ls_cons x l : list_sum (x :: l) = x + list_sum l.
Proof. reflexivity. Qed.
Lemma ls_nil : list_sum [] = 0.
Proof. reflexivity. Qed.
Ltac ls_norm := rewrite ?map_app, ?list_sum_app; cbn [map app isz]; rewrite ?ls_cons, ?ls_nil.

Lemma isz_ni (a : treeL) (b : treeR) : list_sum (map isz (ni a b)) <= tsize a + tsize b.
Proof.
  unfold SetOps.u_next_indices.
  destruct (is_node a); destruct (is_node b);
    repeat match goal with |- context [if ?c then _ else _] => destruct c end;
    repeat match goal with |- context [match ?c with Eq => _ | Lt => _ | Gt => _ end] => destruct c end;
    ls_norm; lia.
Qed.

Lemma isz_only_l (l : treeL) : list_sum (map isz (only_l l)) <= tsize (tleft l) + tsize (tright l).
Proof.
  unfold SetOps.u_only_l. destruct (is_node (tright l)); destruct (is_node (tleft l));
    ls_norm; lia.
Qed.
Lemma isz_only_r (r : treeR) : list_sum (map isz (only_r r)) <= tsize (tleft r) + tsize (tright r).
Proof.
  unfold SetOps.u_only_r. destruct (is_node (tright r)); destruct (is_node (tleft r));
    ls_norm; lia.
Qed.

Lemma isz_first_l (l : treeL) (r : treeR) :
  list_sum (map isz (first_l l r)) <= tsize (tleft l) + tsize (tright l) + tsize r.
Proof.
  unfold SetOps.u_next_first_l.
  pose proof (isz_ni (tleft l) r). pose proof (isz_ni (tright l) r).
  destruct (is_node (tleft l)); destruct (is_node (tright l));
    repeat match goal with |- context [if ?c then _ else _] => destruct c end;
    ls_norm; lia.
Qed.
Lemma isz_first_r (l : treeL) (r : treeR) :
  list_sum (map isz (first_r l r)) <= tsize l + tsize (tleft r) + tsize (tright r).
Proof.
  unfold SetOps.u_next_first_r.
  pose proof (isz_ni l (tleft r)). pose proof (isz_ni l (tright r)).
  destruct (is_node (tleft r)); destruct (is_node (tright r));
    repeat match goal with |- context [if ?c then _ else _] => destruct c end;
    ls_norm; lia.
Qed.

Lemma tsize_node {T} (t : tree pfx T) : is_node t = true -> tsize t = S (tsize (tleft t) + tsize (tright t)).
Proof. destruct t; [discriminate | reflexivity]. Qed.

Lemma kids_dec ix : okI ix -> list_sum (map isz (kids ix)) < isz ix.
Proof.
  intros Hok. destruct ix as [l r|l r|l r|l|r]; cbn [okI] in Hok; cbn [kids isz].
  - destruct Hok as ([Nl _] & [Nr _] & _). rewrite (tsize_node l Nl), (tsize_node r Nr).
    rewrite map_app, list_sum_app.
    pose proof (isz_ni (tright l) (tright r)). pose proof (isz_ni (tleft l) (tleft r)). lia.
  - destruct Hok as ([Nl _] & _). rewrite (tsize_node l Nl). pose proof (isz_first_l l r). lia.
  - destruct Hok as (_ & [Nr _] & _). rewrite (tsize_node r Nr). pose proof (isz_first_r l r). lia.
  - destruct Hok as [Nl _]. rewrite (tsize_node l Nl). pose proof (isz_only_l l). lia.
  - destruct Hok as [Nr _]. rewrite (tsize_node r Nr). pose proof (isz_only_r r). lia.
Qed.

(* ------------------------------------------------------------------------------------------ *)
(** * The machine *)

Lemma u_expand_dec e o cs : okE e -> u_expand e = (o, cs) -> msize uentry esz cs < esz e.
Proof.
  destruct e as [[ix la] ra]. intros [Hok _] Hex.
  assert (cs = snd (u_expand (ix, la, ra))) as -> by (rewrite Hex; reflexivity).
  rewrite u_expand_snd, extend_size. apply kids_dec. exact Hok.
Qed.

Lemma u_expand_local e o cs : okE e -> u_expand e = (o, cs) ->
  Forall okE cs /\ (forall ls, Forall2 Rel (rev cs) ls -> Rel e (opt_cons uitem o (concat ls))).
Proof.
  destruct e as [[ix la] ra]. intros [Hok Hc] Hex.
  assert (cs = snd (u_expand (ix, la, ra))) as -> by (rewrite Hex; reflexivity).
  assert (o = fst (u_expand (ix, la, ra))) as -> by (rewrite Hex; reflexivity).
  rewrite u_expand_snd. destruct (kids_spec ix la ra Hok Hc) as [K1 K2].
  split; [apply extend_ok; exact K1 | exact K2].
Qed.

(** the machine started on [next_indices a b] with inherited matches [la], [ra] *)
Theorem union_run ba bb (ta : treeL) (tb : treeR) la ra n :
  wfL ba ta -> wfR bb tb -> tsize ta + tsize tb <= n ->
  exists out, run uentry uitem u_expand n (rev (extend la ra (ni ta tb))) = Some out /\
              uspec (entries ta) (entries tb) la ra out.
Proof.
  intros Ha Hb Hn. pose proof (ni_classify _ _ ta tb Ha Hb) as C.
  destruct (run_rel uentry uitem u_expand esz okE Rel u_expand_dec u_expand_local n
              (rev (extend la ra (ni ta tb)))) as [ls [HF Hrun]].
  - apply Forall_rev. apply extend_ok. eapply class_ok; exact C.
  - rewrite msize_rev, extend_size. pose proof (isz_ni ta tb). lia.
  - exists (concat ls). split; [exact Hrun|]. eapply class_spec; eassumption.
Qed.

(* ------------------------------------------------------------------------------------------ *)
(** * [union]: the specification and the main theorems *)

(** annotation = the longest-prefix match of prefix [p] in the entry list [B]
    ([None] iff nothing covers) *)
Definition lpm_ann {T} (B : list (pfx * T)) (p : pfx) (ann : option (pfx * T)) : Prop :=
  match ann with
  | Some e => Lookup.is_lpm pfx T bits B p e
  | None => Lookup.no_cover pfx T bits B p
  end.

(** the requested specification *)
Definition union_spec (A : list (pfx * L)) (B : list (pfx * R)) (out : list uitem) : Prop :=
  StronglySorted (fun i j => lex_lt (ikey i) (ikey j)) out /\
  (forall it, In it out ->
     match it with
     | IBoth p l r => In (p, l) A /\ exists pr, In (pr, r) B /\ bits pr = bits p
     | ILeft p l ann => In (p, l) A /\ (forall e, In e B -> bits (fst e) <> bits p) /\ lpm_ann B p ann
     | IRight p ann r => In (p, r) B /\ (forall e, In e A -> bits (fst e) <> bits p) /\ lpm_ann A p ann
     end) /\
  (forall e, In e A -> exists it, In it out /\ ikey it = bits (fst e)) /\
  (forall e, In e B -> exists it, In it out /\ ikey it = bits (fst e)).

Lemma ann_ok_none {T} (B : list (pfx * T)) p ann : ann_ok B None p ann -> lpm_ann B p ann.
Proof. intros [[e [-> H]]|[H ->]]; exact H. Qed.

Lemma uspec_final A B out : uspec A B None None out -> union_spec A B out.
Proof.
  intros (Hs & Hi & Hca & Hcb). split; [exact Hs|]. split; [|split; assumption].
  intros it Hit. specialize (Hi it Hit). destruct it as [p l ann|p ann r|p l r]; cbn [item_ok] in Hi.
  - destruct Hi as (H1 & H2 & H3). split; [exact H1|]. split; [exact H2 | apply ann_ok_none; exact H3].
  - destruct Hi as (H1 & H2 & H3). split; [exact H1|]. split; [exact H2 | apply ann_ok_none; exact H3].
  - exact Hi.
Qed.

(** MAIN THEOREM.

    History: in the first version of the model (and of the Rust code) a [UBoth] stack entry
    always reported the LEFT node's prefix ([&node_l.prefix]), also when only the right node
    carried a value; the clause [In (p, r) B] of [Right] items was then false.  Witness (width 8,
    flavour [Generic]): left map {00/2, 01/2} (value-less branching node 0/1 with representative
    0), right map {0/1 stored with representative 64}: the old model yielded
    [IRight {repr := 0; plen := 1} None 9] although the right map stores
    [({repr := 64; plen := 1}, 9)].  The repaired code reports the prefix of the node that holds
    the entry (the left one if both do), and the clause holds. *)
Theorem union_correct ba bb (ta : treeL) (tb : treeR) :
  wfL ba ta -> wfR bb tb ->
  exists out, union ta tb = Some out /\ union_spec (entries ta) (entries tb) out.
Proof.
  intros Ha Hb. unfold SetOps.union, SetOps.so_fuel.
  destruct (union_run ba bb ta tb None None (S (tsize ta + tsize tb)) Ha Hb) as [out [Hrun U]]; [lia|].
  exists out. split; [exact Hrun | apply uspec_final; exact U].
Qed.

(* ------------------------------------------------------------------------------------------ *)
(** * [union_mut]: lock-step simulation with [union], and the reported slots *)

Definition projU (it : uitem) : pfx * option L * option R :=
  match it with
  | ILeft p l _ => (p, Some l, None)
  | IRight p _ r => (p, None, Some r)
  | IBoth p l r => (p, Some l, Some r)
  end.
Definition projM : umitem -> pfx * option L * option R :=
  fun '(p, l, r) => (p, option_map snd l, option_map snd r).

Lemma expand_sim ix la ra :
  option_map projU (fst (u_expand (ix, la, ra))) = option_map projM (fst (um_expand ix)).
Proof.
  destruct ix as [l r|l r|l r|l|r]; cbn [SetOps.u_expand SetOps.um_expand fst].
  - destruct l as [|il pl [x|] ll lr]; destruct r as [|ir pr [y|] rl rr]; reflexivity.
  - destruct l as [|il pl [x|] ll lr]; reflexivity.
  - destruct r as [|ir pr [y|] rl rr]; reflexivity.
  - destruct l as [|il pl [x|] ll lr]; reflexivity.
  - destruct r as [|ir pr [y|] rl rr]; reflexivity.
Qed.

Definition eix (e : uentry) : uidx := fst (fst e).

Lemma extend_eix la ra xs : map eix (extend la ra xs) = xs.
Proof.
  unfold SetOps.u_extend_lpm. rewrite map_map. rewrite <- (map_id xs) at 2. apply map_ext.
  intros x. destruct x; reflexivity.
Qed.

Lemma run_sim n : forall st,
  match run uentry uitem u_expand n st, run uidx umitem um_expand n (map eix st) with
  | Some o, Some om => map projU o = map projM om
  | None, None => True
  | _, _ => False
  end.
Proof.
  induction n as [|n IH]; intros st; destruct st as [|e rest]; cbn [run map]; try reflexivity; try exact I.
  destruct e as [[ix la] ra]. cbn [eix fst].
  pose proof (u_expand_snd ix la ra) as Hs. pose proof (um_expand_snd ix) as Hms.
  pose proof (expand_sim ix la ra) as Hf.
  destruct (u_expand (ix, la, ra)) as [o cs]. destruct (um_expand ix) as [om csm].
  cbn [fst snd] in Hs, Hms, Hf. subst cs csm.
  specialize (IH (rev (extend la ra (kids ix)) ++ rest)).
  rewrite map_app, map_rev, extend_eix in IH.
  destruct (run uentry uitem u_expand n (rev (extend la ra (kids ix)) ++ rest)) as [out|];
    destruct (run uidx umitem um_expand n (rev (kids ix) ++ map eix rest)) as [outm|];
    try contradiction; [|exact I].
  destruct o as [x|]; destruct om as [xm|]; cbn [option_map] in Hf; try discriminate; cbn [opt_cons map].
  - inversion Hf. f_equal. exact IH.
  - exact IH.
Qed.

Theorem union_mut_mirrors ba bb (ta : treeL) (tb : treeR) :
  wfL ba ta -> wfR bb tb ->
  exists out outm, union ta tb = Some out /\ union_mut ta tb = Some outm /\
    map (fun it => match it with
                   | ILeft p l _ => (p, Some l, None)
                   | IRight p _ r => (p, None, Some r)
                   | IBoth p l r => (p, Some l, Some r)
                   end) out
    = map (fun '(p, l, r) => (p, option_map snd l, option_map snd r)) outm.
Proof.
  intros Ha Hb. destruct (union_correct ba bb ta tb Ha Hb) as [out [Hrun _]].
  pose proof (run_sim (so_fuel ta tb) (rev (extend None None (ni ta tb)))) as Hsim.
  rewrite map_rev, extend_eix in Hsim. unfold SetOps.union in Hrun. rewrite Hrun in Hsim.
  unfold SetOps.union_mut.
  destruct (run uidx umitem um_expand (so_fuel ta tb) (rev (ni ta tb))) as [outm|]; [|contradiction].
  exists out, outm. split; [exact Hrun|]. split; [reflexivity | exact Hsim].
Qed.

(** ** the slots reported by [union_mut] *)

Definition sub {T} (big t : tree pfx T) : Prop :=
  forall e, In e (entries_id t) -> In e (entries_id big).

Lemma sub_children {T} (big t : tree pfx T) : sub big t -> sub big (tleft t) /\ sub big (tright t).
Proof.
  destruct t as [|i p v l r]; cbn [tleft tright]; [intros H; split; exact H|].
  intros H. split; intros e He; apply H; cbn [entries_id]; rewrite !in_app_iff; auto.
Qed.

Definition PI (PL : treeL -> Prop) (PR : treeR -> Prop) (ix : uidx) : Prop :=
  match ix with
  | UBoth l r | UFirstL l r | UFirstR l r => PL l /\ PR r
  | UOnlyL l => PL l
  | UOnlyR r => PR r
  end.

Section Lift.
Variables (PL : treeL -> Prop) (PR : treeR -> Prop).
Hypothesis PLc : forall t, PL t -> PL (tleft t) /\ PL (tright t).
Hypothesis PRc : forall t, PR t -> PR (tleft t) /\ PR (tright t).

Lemma ni_PI a b : PL a -> PR b -> Forall (PI PL PR) (ni a b).
Proof.
  intros Ha Hb. unfold SetOps.u_next_indices.
  destruct (is_node a); destruct (is_node b);
    repeat match goal with |- context [if ?c then _ else _] => destruct c end;
    repeat match goal with |- context [match ?c with Eq => _ | Lt => _ | Gt => _ end] => destruct c end;
    repeat (apply Forall_cons || apply Forall_nil); cbn [PI]; auto.
Qed.

Lemma kids_PI ix : PI PL PR ix -> Forall (PI PL PR) (kids ix).
Proof.
  destruct ix as [l r|l r|l r|l|r]; cbn [PI kids].
  - intros [Hl Hr]. destruct (PLc l Hl). destruct (PRc r Hr). apply Forall_app. split; apply ni_PI; assumption.
  - intros [Hl Hr]. destruct (PLc l Hl) as [H1 H2]. unfold SetOps.u_next_first_l.
    destruct (is_node (tleft l)); destruct (is_node (tright l));
      repeat match goal with |- context [if ?c then _ else _] => destruct c end;
      repeat (apply Forall_app; split); repeat (apply Forall_cons || apply Forall_nil);
      try (apply ni_PI; assumption); cbn [PI]; auto.
  - intros [Hl Hr]. destruct (PRc r Hr) as [H1 H2]. unfold SetOps.u_next_first_r.
    destruct (is_node (tleft r)); destruct (is_node (tright r));
      repeat match goal with |- context [if ?c then _ else _] => destruct c end;
      repeat (apply Forall_app; split); repeat (apply Forall_cons || apply Forall_nil);
      try (apply ni_PI; assumption); cbn [PI]; auto.
  - intros Hl. destruct (PLc l Hl) as [H1 H2]. unfold SetOps.u_only_l.
    destruct (is_node (tleft l)); destruct (is_node (tright l)); cbn [app];
      repeat (apply Forall_cons || apply Forall_nil); cbn [PI]; auto.
  - intros Hr. destruct (PRc r Hr) as [H1 H2]. unfold SetOps.u_only_r.
    destruct (is_node (tleft r)); destruct (is_node (tright r)); cbn [app];
      repeat (apply Forall_cons || apply Forall_nil); cbn [PI]; auto.
Qed.
End Lift.

Lemma kids_ok ix : okI ix -> Forall okI (kids ix).
Proof.
  intros Hok.
  assert (Hc : exists la ra, consI ix la ra).
  { assert (CL : forall l : treeL, cons l (pv l)) by (intros l; unfold cons; destruct (pv l); reflexivity).
    assert (CR : forall r : treeR, cons r (pv r)) by (intros r; unfold cons; destruct (pv r); reflexivity).
    destruct ix as [l r|l r|l r|l|r]; cbn [consI].
    - exists (pv l), (pv r). split; [apply CL | apply CR].
    - exists (pv l), None. apply CL.
    - exists None, (pv r). apply CR.
    - exists (pv l), None. apply CL.
    - exists None, (pv r). apply CR. }
  destruct Hc as (la & ra & Hc). apply (kids_spec ix la ra Hok Hc).
Qed.

Lemma idval_in {T} (t : tree pfx T) i x :
  idval pfx t = Some (i, x) -> In (i, tpfx pfx T pzero t, x) (entries_id t).
Proof.
  destruct t as [|j p [y|] l r]; cbn [idval]; intros H; inversion H; subst. cbn [entries_id tpfx]. left. reflexivity.
Qed.

Definition slot_ok (ta : treeL) (tb : treeR) (it : umitem) : Prop :=
  let '(p, l, r) := it in
  (forall i x, l = Some (i, x) -> In (i, p, x) (entries_id ta)) /\
  (forall i y, r = Some (i, y) ->
     (l = None -> In (i, p, y) (entries_id tb)) /\
     exists pr, In (i, pr, y) (entries_id tb) /\ bits pr = bits p).

(** every slot [union_mut] yields is the slot of that entry (an item with both sides reports the
    LEFT node's prefix, hence the right-hand clause is then stated up to the denoted key) *)
Theorem union_mut_slots ba bb (ta : treeL) (tb : treeR) outm :
  wfL ba ta -> wfR bb tb -> union_mut ta tb = Some outm ->
  forall p l r, In (p, l, r) outm ->
    (forall i x, l = Some (i, x) -> In (i, p, x) (entries_id ta)) /\
    (forall i y, r = Some (i, y) ->
       (l = None -> In (i, p, y) (entries_id tb)) /\
       exists pr, In (i, pr, y) (entries_id tb) /\ bits pr = bits p).
Proof.
  intros Ha Hb Hrun. unfold SetOps.union_mut in Hrun.
  assert (HQ : Forall (slot_ok ta tb) outm).
  { eapply (run_inv um_expand (fun ix => okI ix /\ PI (sub ta) (sub tb) ix)); [| |exact Hrun].
    - intros ix o cs [Hok Hsub] Hex.
      assert (cs = snd (um_expand ix)) as -> by (rewrite Hex; reflexivity).
      assert (o = fst (um_expand ix)) as -> by (rewrite Hex; reflexivity).
      rewrite um_expand_snd. split.
      + apply Forall_and; [apply kids_ok; exact Hok|].
        apply kids_PI; [apply sub_children | apply sub_children | exact Hsub].
      + clear Hex. intros x Hx.
        destruct ix as [l r|l r|l r|l|r]; cbn [SetOps.um_expand fst] in Hx; cbn [okI PI] in Hok, Hsub.
        * destruct Hok as (Gl & Gr & Ek). destruct Hsub as [Sl Sr].
          destruct l as [|il pl vl ll lr]; [destruct (good_leaf Gl)|].
          destruct r as [|ir pr vr rl rr]; [destruct (good_leaf Gr)|].
          unfold rk in Ek. cbn [tpfx] in Ek.
          assert (Il : forall x0, vl = Some x0 -> In (il, pl, x0) (entries_id ta)).
          { intros x0 ->. apply Sl. left. reflexivity. }
          assert (Ir : forall y0, vr = Some y0 -> In (ir, pr, y0) (entries_id tb)).
          { intros y0 ->. apply Sr. left. reflexivity. }
          cbn [tval tpfx idval] in Hx.
          destruct vl as [x0|]; destruct vr as [y0|]; cbn [is_some is_none negb orb] in Hx;
            inversion Hx; subst x; clear Hx; cbn [slot_ok];
            (split; [intros i x E | intros i y E]); inversion E; subst.
          -- apply Il. reflexivity.
          -- split; [discriminate|]. exists pr. split; [apply Ir; reflexivity | symmetry; exact Ek].
          -- apply Il. reflexivity.
          -- split; [intros _; apply Ir; reflexivity|]. exists pr. split; [apply Ir; reflexivity | reflexivity].
        * match type of Hx with (if ?c then _ else _) = _ => destruct c; [|discriminate] end.
          inversion Hx; subst x; clear Hx; cbn [slot_ok]. split; [intros i x E | intros i y E; discriminate].
          apply (proj1 Hsub). apply idval_in. exact E.
        * match type of Hx with (if ?c then _ else _) = _ => destruct c; [|discriminate] end.
          inversion Hx; subst x; clear Hx; cbn [slot_ok]. split; [intros i x E; discriminate | intros i y E].
          assert (Hin : In (i, tpfx pfx R pzero r, y) (entries_id tb)) by (apply (proj2 Hsub); apply idval_in; exact E).
          split; [intros _; exact Hin|]. exists (tpfx pfx R pzero r). split; [exact Hin | reflexivity].
        * match type of Hx with (if ?c then _ else _) = _ => destruct c; [|discriminate] end.
          inversion Hx; subst x; clear Hx; cbn [slot_ok]. split; [intros i x E | intros i y E; discriminate].
          apply Hsub. apply idval_in. exact E.
        * match type of Hx with (if ?c then _ else _) = _ => destruct c; [|discriminate] end.
          inversion Hx; subst x; clear Hx; cbn [slot_ok]. split; [intros i x E; discriminate | intros i y E].
          assert (Hin : In (i, tpfx pfx R pzero r, y) (entries_id tb)) by (apply Hsub; apply idval_in; exact E).
          split; [intros _; exact Hin|]. exists (tpfx pfx R pzero r). split; [exact Hin | reflexivity].
    - apply Forall_rev. pose proof (ni_classify _ _ ta tb Ha Hb) as C.
      apply Forall_and; [eapply class_ok; exact C|].
      apply ni_PI; intros e He; exact He. }
  rewrite Forall_forall in HQ. intros p l r Hin. exact (HQ _ Hin).
Qed.

End UN.

Print Assumptions union_correct.
Print Assumptions union_mut_mirrors.
Print Assumptions union_mut_slots.
