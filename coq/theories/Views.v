(** The model of [src/trieview/mod.rs]: [TrieView] (read-only, over subtrees) and
    [TrieViewMut] (over paths into the map's tree, so that writes can be put back).
    The two Rust types duplicate [find]/[find_exact]/[find_lpm]/[left]/[right]; so does the model. *)
From Coq Require Import List NArith ZArith Bool.
From PT Require Import Machine Trie.
Import ListNotations.

Section V.
Variables (pfx V : Type).
Variables (peq contains : pfx -> pfx -> bool) (is_bit_set : pfx -> N -> bool)
          (plen : pfx -> N) (pzero : pfx).
Notation tree := (tree pfx V).
Notation to_right := (to_right pfx is_bit_set plen).
Notation tpfx := (tpfx pfx V pzero).

(** [ViewLoc::Node(idx)] / [ViewLoc::Virtual(p, idx)]; the subtree is the one rooted at [idx] *)
Inductive view := VNode (t : tree) | VVirt (p : pfx) (t : tree).

Definition v_tree (v : view) : tree := match v with VNode t => t | VVirt _ t => t end.
Definition v_is_virtual (v : view) : bool := match v with VNode _ => false | VVirt _ _ => true end.

(** [AsView::view] of a map *)
Definition view_of (T : tree) : view := VNode T.

(** the loop of [TrieView::find] ([get_direction_for_insert]) *)
Fixpoint find_walk (t : tree) (q : pfx) : option view :=
  match t with
  | Leaf => None
  | Node i p v l r =>
    if peq p q then Some (VNode t) else
    let c := if to_right p q then r else l in
    match c with
    | Leaf => None                                        (* NewLeaf *)
    | Node _ cp _ _ _ =>
      if contains cp q then find_walk c q                 (* Enter *)
      else if contains q cp then Some (VVirt q c)         (* NewChild: virtual node on the edge *)
      else None                                           (* NewBranch *)
    end
  end.

(** [TrieView::find]: a query that covers the view's real node addresses the whole view *)
Definition v_find (v : view) (q : pfx) : option view :=
  let t := v_tree v in
  match t with
  | Leaf => None
  | Node _ p _ _ _ =>
    if contains q p && negb (peq p q) then Some (VVirt q t)
    else find_walk t q
  end.

(** [AsView::view_at] = [view().find(p)] *)
Definition view_at (T : tree) (q : pfx) : option view := v_find (view_of T) q.

Fixpoint find_exact_walk (t : tree) (q : pfx) : option view :=
  match t with
  | Leaf => None
  | Node i p v l r =>
    if peq p q then (if is_some v then Some (VNode t) else None) else
    let c := if to_right p q then r else l in
    match c with
    | Node _ cp _ _ _ => if contains cp q then find_exact_walk c q else None
    | Leaf => None
    end
  end.
Definition v_find_exact (v : view) (q : pfx) : option view := find_exact_walk (v_tree v) q.

Fixpoint find_lpm_walk (t : tree) (q : pfx) (best : option view) : option view :=
  match t with
  | Leaf => best
  | Node i p v l r =>
    let best := if is_some v then Some (VNode t) else best in
    if peq p q then best else
    let c := if to_right p q then r else l in
    match c with
    | Node _ cp _ _ _ => if contains cp q then find_lpm_walk c q best else best
    | Leaf => best
    end
  end.
(** [TrieView::find_lpm]: nothing in the view covers a query that the view's node does not cover *)
Definition v_find_lpm (v : view) (q : pfx) : option view :=
  let t := v_tree v in
  match t with
  | Leaf => None
  | Node _ p _ _ _ => if contains p q then find_lpm_walk t q None else None
  end.

Definition v_left (v : view) : option view :=
  match v with
  | VNode t => match tleft t with Leaf => None | l => Some (VNode l) end
  | VVirt p t => if negb (to_right p (tpfx t)) then Some (VNode t) else None
  end.
Definition v_right (v : view) : option view :=
  match v with
  | VNode t => match tright t with Leaf => None | r => Some (VNode r) end
  | VVirt p t => if to_right p (tpfx t) then Some (VNode t) else None
  end.

Definition v_prefix (v : view) : pfx :=
  match v with VNode t => tpfx t | VVirt p _ => p end.
Definition v_value (v : view) : option V :=
  match v with VNode t => tval t | VVirt _ _ => None end.
Definition v_prefix_value (v : view) : option (pfx * V) :=
  match v with VNode t => pv t | VVirt _ _ => None end.
(** [iter]/[keys]/[values]/[into_iter] of a view start at the real node *)
Definition v_iter (v : view) : list (N * pfx * V) := iter_items pfx V (v_tree v).

(* ------------------------------------------------------------------------------------------ *)
(** * [TrieViewMut]: a path from the map's root to the real node, plus the virtual prefix *)

Definition path := list bool.

Fixpoint subtree (t : tree) (pa : path) : tree :=
  match pa, t with
  | [], _ => t
  | b :: pa', Node _ _ _ l r => subtree (if b then r else l) pa'
  | _ :: _, Leaf => Leaf
  end.
Fixpoint subst (t : tree) (pa : path) (n : tree) : tree :=
  match pa, t with
  | [], _ => n
  | b :: pa', Node i p v l r =>
    if b then Node i p v l (subst r pa' n) else Node i p v (subst l pa' n) r
  | _ :: _, Leaf => Leaf
  end.

Record vmut := mkvmut { mpath : path; mvirt : option pfx }.
Definition vm_root : vmut := mkvmut [] None.
Definition vm_tree (T : tree) (m : vmut) : tree := subtree T (mpath m).
(** the read-only view with the same location ([AsView for &TrieViewMut]) *)
Definition vm_view (T : tree) (m : vmut) : view :=
  match mvirt m with None => VNode (vm_tree T m) | Some p => VVirt p (vm_tree T m) end.

(** the loop of [TrieViewMut::find]: relative path of the node found, and whether the result is
    virtual *)
Fixpoint find_walk_m (t : tree) (q : pfx) : option (path * bool) :=
  match t with
  | Leaf => None
  | Node i p v l r =>
    if peq p q then Some ([], false) else
    let rt := to_right p q in
    let c := if rt then r else l in
    match c with
    | Leaf => None
    | Node _ cp _ _ _ =>
      if contains cp q then
        match find_walk_m c q with Some (pa, vi) => Some (rt :: pa, vi) | None => None end
      else if contains q cp then Some ([rt], true)
      else None
    end
  end.
(** [None] = [Err(self)] *)
Definition vm_find (T : tree) (m : vmut) (q : pfx) : option vmut :=
  let t := vm_tree T m in
  match t with
  | Leaf => None
  | Node _ p _ _ _ =>
    if contains q p && negb (peq p q) then Some (mkvmut (mpath m) (Some q))
    else match find_walk_m t q with
         | Some (pa, vi) => Some (mkvmut (mpath m ++ pa) (if vi then Some q else None))
         | None => None
         end
  end.

Fixpoint find_exact_walk_m (t : tree) (q : pfx) : option path :=
  match t with
  | Leaf => None
  | Node i p v l r =>
    if peq p q then (if is_some v then Some [] else None) else
    let rt := to_right p q in
    let c := if rt then r else l in
    match c with
    | Node _ cp _ _ _ =>
      if contains cp q then option_map (cons rt) (find_exact_walk_m c q) else None
    | Leaf => None
    end
  end.
Definition vm_find_exact (T : tree) (m : vmut) (q : pfx) : option vmut :=
  match find_exact_walk_m (vm_tree T m) q with
  | Some pa => Some (mkvmut (mpath m ++ pa) None)
  | None => None
  end.

(** tracks the (relative, reversed) path of the best node *)
Fixpoint find_lpm_walk_m (t : tree) (q : pfx) (cur : path) (best : option path) : option path :=
  match t with
  | Leaf => best
  | Node i p v l r =>
    let best := if is_some v then Some cur else best in
    if peq p q then best else
    let rt := to_right p q in
    let c := if rt then r else l in
    match c with
    | Node _ cp _ _ _ => if contains cp q then find_lpm_walk_m c q (rt :: cur) best else best
    | Leaf => best
    end
  end.
Definition vm_find_lpm (T : tree) (m : vmut) (q : pfx) : option vmut :=
  let t := vm_tree T m in
  match t with
  | Leaf => None
  | Node _ p _ _ _ =>
    if contains p q then
      match find_lpm_walk_m t q [] None with
      | Some rpa => Some (mkvmut (mpath m ++ rev rpa) None)
      | None => None
      end
    else None
  end.

Definition vm_has_left (T : tree) (m : vmut) : bool :=
  match mvirt m with
  | None => is_node (tleft (vm_tree T m))
  | Some p => negb (to_right p (tpfx (vm_tree T m)))
  end.
Definition vm_has_right (T : tree) (m : vmut) : bool :=
  match mvirt m with
  | None => is_node (tright (vm_tree T m))
  | Some p => to_right p (tpfx (vm_tree T m))
  end.
Definition vm_left (T : tree) (m : vmut) : option vmut :=
  match mvirt m with
  | None => if is_node (tleft (vm_tree T m)) then Some (mkvmut (mpath m ++ [false]) None) else None
  | Some p => if negb (to_right p (tpfx (vm_tree T m))) then Some (mkvmut (mpath m) None) else None
  end.
Definition vm_right (T : tree) (m : vmut) : option vmut :=
  match mvirt m with
  | None => if is_node (tright (vm_tree T m)) then Some (mkvmut (mpath m ++ [true]) None) else None
  | Some p => if to_right p (tpfx (vm_tree T m)) then Some (mkvmut (mpath m) None) else None
  end.
Definition vm_split (T : tree) (m : vmut) : option vmut * option vmut :=
  match mvirt m with
  | None =>
    ((if is_node (tleft (vm_tree T m)) then Some (mkvmut (mpath m ++ [false]) None) else None),
     (if is_node (tright (vm_tree T m)) then Some (mkvmut (mpath m ++ [true]) None) else None))
  | Some p =>
    if to_right p (tpfx (vm_tree T m)) then (None, Some (mkvmut (mpath m) None))
    else (Some (mkvmut (mpath m) None), None)
  end.

Definition vm_prefix (T : tree) (m : vmut) : pfx :=
  match mvirt m with None => tpfx (vm_tree T m) | Some p => p end.
Definition vm_value (T : tree) (m : vmut) : option V :=
  match mvirt m with None => tval (vm_tree T m) | Some _ => None end.

Definition set_tval (t : tree) (v : option V) : tree :=
  match t with Leaf => Leaf | Node i p _ l r => Node i p v l r end.

(** [TrieViewMut::remove]: takes the value out of the node; the map's counter is out of reach *)
Definition vm_remove (T : tree) (m : vmut) : tree * option V :=
  match mvirt m with
  | Some _ => (T, None)
  | None => (subst T (mpath m) (set_tval (vm_tree T m) None), tval (vm_tree T m))
  end.
(** [TrieViewMut::set]: [inl old] = [Ok(old)], [inr x] = [Err(x)] *)
Definition vm_set (T : tree) (m : vmut) (x : V) : tree * (option V + V) :=
  match mvirt m with
  | Some _ => (T, inr x)
  | None => (subst T (mpath m) (set_tval (vm_tree T m) (Some x)), inl (tval (vm_tree T m)))
  end.
(** [value_mut]/[prefix_value_mut] followed by a write through the reference *)
Definition vm_value_mut (T : tree) (m : vmut) (g : V -> V) : tree * option (pfx * V) :=
  match mvirt m with
  | Some _ => (T, None)
  | None =>
    let t := vm_tree T m in
    (subst T (mpath m) (set_tval t (option_map g (tval t))), pv t)
  end.
(** [iter_mut]/[values_mut]/[into_iter] of a mutable view *)
Definition vm_iter_mut (T : tree) (m : vmut) : list (N * pfx * V) :=
  iter_mut_items pfx V (vm_tree T m).

End V.

Arguments VNode {pfx V}.
Arguments VVirt {pfx V}.
Arguments v_tree {pfx V}.
Arguments v_is_virtual {pfx V}.
Arguments view_of {pfx V}.
Arguments v_value {pfx V}.
Arguments v_prefix_value {pfx V}.
Arguments v_iter {pfx V}.
Arguments subtree {pfx V}.
Arguments subst {pfx V}.
Arguments vm_tree {pfx V}.
Arguments vm_view {pfx V}.
Arguments vm_value {pfx V}.
Arguments vm_remove {pfx V}.
Arguments vm_set {pfx V}.
Arguments vm_value_mut {pfx V}.
Arguments vm_iter_mut {pfx V}.
Arguments set_tval {pfx V}.
