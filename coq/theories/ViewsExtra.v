(** Views, continued (for C11 / C12):
    - the iterators of a view against the entry list; results of [find] / [left] / [right] as
      *filters* of the entry list of the view (list equalities, hence order included);
    - the value of a view is the value stored exactly at its prefix;
    - [find_exact] is [find] restricted to stored queries; [find_lpm] is [find_exact] at the longest
      stored prefix covering the query;
    - closure: every view reachable by left / right / find / find_exact / find_lpm from a
      well-formed view is well-formed and addresses a subset of the entries;
    - canonical trees (insert / remove / retain / clear histories): every view below the map's root
      holds at least one entry, hence a sub-view or side exists exactly when it is non-empty. *)
From Coq Require Import List NArith ZArith Bool Arith Lia Sorted.
From PT Require Import Bits BitsThm Laws Machine MachineThm Trie Views TrieWf Lookup Lookup2 ViewsThm Canon.
Import ListNotations.

Section VX.
Variables (pfx V : Type).
Variables (peq contains : pfx -> pfx -> bool) (is_bit_set : pfx -> N -> bool)
          (plen : pfx -> N) (lcp : pfx -> pfx -> pfx) (pzero : pfx)
          (mcmp : pfx -> pfx -> comparison).
Variable bits : pfx -> list bool.
Variable ok : pfx -> Prop.
Hypothesis LAWS : prefix_laws pfx peq contains is_bit_set plen lcp pzero mcmp bits ok.

Notation tree := (tree pfx V).
Notation view := (view pfx V).
Notation to_right := (to_right pfx is_bit_set plen).
Notation wf_under := (wf_under pfx V bits ok).
Notation wf_root := (wf_root pfx V bits ok).
Notation key := (key pfx V bits).
Notation key_lt := (key_lt pfx V bits).
Notation tpfx := (tpfx pfx V pzero).
Notation root_covers := (root_covers pfx V bits).
Notation find_walk := (find_walk pfx V peq contains is_bit_set plen).
Notation v_find := (v_find pfx V peq contains is_bit_set plen).
Notation view_at := (view_at pfx V peq contains is_bit_set plen).
Notation find_exact_walk := (find_exact_walk pfx V peq contains is_bit_set plen).
Notation v_find_exact := (v_find_exact pfx V peq contains is_bit_set plen).
Notation find_lpm_walk := (find_lpm_walk pfx V peq contains is_bit_set plen).
Notation v_find_lpm := (v_find_lpm pfx V peq contains is_bit_set plen).
Notation v_left := (v_left pfx V is_bit_set plen pzero).
Notation v_right := (v_right pfx V is_bit_set plen pzero).
Notation v_prefix := (v_prefix pfx V pzero).
Notation view_wf := (ViewsThm.view_wf pfx V pzero bits ok).
Notation v_entries := (ViewsThm.v_entries pfx V).
Notation side_prefix := (ViewsThm.side_prefix pfx V pzero bits).
Notation is_lpm := (Lookup.is_lpm pfx V bits).
Notation no_cover := (Lookup.no_cover pfx V bits).
Notation canon_below := (Canon.canon_below pfx V).
Notation canonical := (Canon.canonical pfx V).

Local Notation L_peq_true := (peq_true pfx peq contains is_bit_set plen lcp pzero mcmp bits ok LAWS).
Local Notation L_peq_false := (peq_false pfx peq contains is_bit_set plen lcp pzero mcmp bits ok LAWS).
Local Notation L_peq_refl := (peq_refl_bits pfx peq contains is_bit_set plen lcp pzero mcmp bits ok LAWS).
Local Notation L_contains_true := (contains_true pfx peq contains is_bit_set plen lcp pzero mcmp bits ok LAWS).
Local Notation L_contains_false := (contains_false pfx peq contains is_bit_set plen lcp pzero mcmp bits ok LAWS).
Local Notation L_contains_intro := (contains_intro pfx peq contains is_bit_set plen lcp pzero mcmp bits ok LAWS).
Local Notation L_to_right_spec := (to_right_spec pfx peq contains is_bit_set plen lcp pzero mcmp bits ok LAWS).
Local Notation L_v_find_spec := (v_find_spec pfx V peq contains is_bit_set plen lcp pzero mcmp bits ok LAWS).
Local Notation L_v_side_spec := (v_side_spec pfx V peq contains is_bit_set plen lcp pzero mcmp bits ok LAWS).
Local Notation L_v_find_exact_spec := (v_find_exact_spec pfx V peq contains is_bit_set plen lcp pzero mcmp bits ok LAWS).
Local Notation L_v_find_lpm_spec := (v_find_lpm_spec pfx V peq contains is_bit_set plen lcp pzero mcmp bits ok LAWS).

(* ---------------------------------------------------------------------------------------- *)
(** * 0. filters of strictly sorted entry lists *)

Lemma sorted_filter (f : pfx * V -> bool) (l : list (pfx * V)) :
  StronglySorted key_lt l -> StronglySorted key_lt (filter f l).
Proof.
  induction 1 as [|x l Hs IH Hf]; cbn [filter]; [constructor|].
  destruct (f x); [|exact IH]. constructor; [exact IH|].
  rewrite Forall_forall in *. intros y Hy. apply filter_In in Hy. apply Hf. tauto.
Qed.

(** a strictly sorted list whose members are the members of [l] satisfying [f] IS [filter f l] *)
Lemma filter_char (f : pfx * V -> bool) (l l' : list (pfx * V)) :
  StronglySorted key_lt l -> StronglySorted key_lt l' ->
  (forall e, In e l' <-> In e l /\ f e = true) -> l' = filter f l.
Proof.
  intros H1 H2 H. apply (sorted_ext pfx V bits); [exact H2 | apply sorted_filter; exact H1|].
  intros e. rewrite filter_In. apply H.
Qed.

Lemma filter_none (f : pfx * V -> bool) (l : list (pfx * V)) :
  (forall e, In e l -> f e <> true) -> filter f l = [].
Proof.
  induction l as [|x l IH]; intros H; [reflexivity|]. cbn [filter].
  destruct (f x) eqn:E; [exfalso; apply (H x); [left; reflexivity | exact E]|].
  apply IH. intros e He. apply H. right. exact He.
Qed.

(** "covered by the bit string [k]" as a boolean test on entries *)
Definition under (k : list bool) (e : pfx * V) : bool := is_prefix k (key e).

Lemma under_spec k e : under k e = true <-> prefix_of k (key e).
Proof. apply is_prefix_spec. Qed.

(* ---------------------------------------------------------------------------------------- *)
(** * 1. iterators, order, value *)

(** every iterator of a view ([iter], [keys], [values], [into_iter]) yields the view's entries *)
Theorem v_iter_entries (v : view) : map (Lookup2.drop_id pfx V) (v_iter v) = v_entries v.
Proof. unfold v_iter, ViewsThm.v_entries. rewrite iter_items_spec. apply entries_id_entries. Qed.

(** ... in strictly ascending lexicographic order of the keys *)
Theorem v_entries_sorted (v : view) : view_wf v -> StronglySorted key_lt (v_entries v).
Proof. intros [_ [[b Hwf] _]]. exact (entries_sorted pfx V bits ok b _ Hwf). Qed.

Lemma v_entries_ok (v : view) e : view_wf v -> In e (v_entries v) -> ok (fst e).
Proof. intros [_ [[b Hwf] _]] Hin. exact (entries_ok pfx V bits ok b _ e Hwf Hin). Qed.

Lemma v_entries_key_inj (v : view) e1 e2 :
  view_wf v -> In e1 (v_entries v) -> In e2 (v_entries v) -> key e1 = key e2 -> e1 = e2.
Proof. intros [_ [[b Hwf] _]]. exact (entries_key_inj pfx V bits ok b _ e1 e2 Hwf). Qed.

(** [find q]: the entry list of the result is the entry list of the view filtered by "covered by
    [q]" (same entries, same order); no result only if the filter is empty *)
Theorem v_find_filter (v : view) q :
  view_wf v -> ok q ->
  match v_find v q with
  | Some v' => v_entries v' = filter (under (bits q)) (v_entries v)
  | None => filter (under (bits q)) (v_entries v) = []
  end.
Proof.
  intros Hv Hq. pose proof (L_v_find_spec v q Hv Hq) as H.
  destruct (v_find v q) as [v'|].
  - destruct H as [Hv' [_ Hm]]. apply filter_char; [apply v_entries_sorted; exact Hv | apply v_entries_sorted; exact Hv'|].
    intros e. rewrite under_spec. apply Hm.
  - apply filter_none. intros e He. rewrite under_spec. apply H. exact He.
Qed.

(** [left()] ([s = false]) / [right()] ([s = true]): the filter by "next bit after the view's
    prefix is [s]" *)
Theorem v_side_filter (v : view) (s : bool) :
  view_wf v ->
  match (if s then v_right v else v_left v) with
  | Some v' => v_entries v' = filter (under (side_prefix v s)) (v_entries v)
  | None => filter (under (side_prefix v s)) (v_entries v) = []
  end.
Proof.
  intros Hv. pose proof (L_v_side_spec v s Hv) as H.
  destruct (if s then v_right v else v_left v) as [v'|].
  - destruct H as [Hv' [_ Hm]]. apply filter_char; [apply v_entries_sorted; exact Hv | apply v_entries_sorted; exact Hv'|].
    intros e. rewrite under_spec. apply Hm.
  - apply filter_none. intros e He. rewrite under_spec. apply H. exact He.
Qed.

(** the entry of a view whose key is the view's own prefix is the pair [(prefix(), value())] *)
Lemma v_own_entry (v : view) e :
  view_wf v -> In e (v_entries v) -> key e = bits (v_prefix v) ->
  v_is_virtual v = false /\ fst e = v_prefix v /\ v_value v = Some (snd e).
Proof.
  intros Hv Hin Hk. destruct (v_is_virtual v) eqn:Evirt.
  { exfalso. exact (v_virtual_no_own pfx V pzero bits ok v e Hv Evirt Hin Hk). }
  split; [reflexivity|].
  destruct Hv as [Hn [[b Hwf] _]]. destruct v as [t|p t]; [|discriminate].
  cbn [ViewsThm.v_entries v_tree Views.v_prefix Views.v_value] in *.
  destruct t as [|i p0 v0 l r]; [discriminate|]. cbn [Trie.tpfx tval] in *.
  pose proof (wf_node_inv _ _ _ _ _ _ _ _ _ _ Hwf) as [_ [_ [Hl Hr]]].
  apply (in_entries_inv pfx V i p0 v0 l r) in Hin. destruct Hin as [[H1 H2]|[Hin|Hin]]; [split; [exact H2 | exact H1]| |]; exfalso.
  - exact (below_neq _ _ _ (entries_under _ _ _ _ _ _ _ Hl Hin) Hk).
  - exact (below_neq _ _ _ (entries_under _ _ _ _ _ _ _ Hr Hin) Hk).
Qed.

(** [value()] is the value stored in the view exactly at the view's prefix ([None] otherwise) *)
Theorem v_value_spec (v : view) x :
  view_wf v ->
  (v_value v = Some x <-> exists p, In (p, x) (v_entries v) /\ bits p = bits (v_prefix v)).
Proof.
  intros Hv. split.
  - intros H. exists (v_prefix v). split; [|reflexivity].
    apply (v_value_own pfx V pzero bits ok v x Hv). exact H.
  - intros [p [Hin Hk]]. destruct (v_own_entry v (p, x) Hv Hin Hk) as [_ [_ H]]. exact H.
Qed.


(** the value of the view returned by [find q] is the value the view stores exactly at [q] *)
Theorem v_find_value (v : view) q v' x :
  view_wf v -> ok q -> v_find v q = Some v' ->
  (v_value v' = Some x <-> exists p, In (p, x) (v_entries v) /\ bits p = bits q).
Proof.
  intros Hv Hq H. pose proof (L_v_find_spec v q Hv Hq) as Hs. rewrite H in Hs.
  destruct Hs as [Hv' [Hk Hm]]. rewrite (v_value_spec v' x Hv'). rewrite Hk. split.
  - intros [p [Hin Hp]]. exists p. split; [apply Hm in Hin; tauto | exact Hp].
  - intros [p [Hin Hp]]. exists p. split; [|exact Hp]. apply Hm. split; [exact Hin|].
    unfold TrieWf.key. cbn [fst]. rewrite Hp. apply prefix_of_refl.
Qed.

(** the entry list of a view IS its own entry followed by the entries of [left()] followed by the
    entries of [right()] (purely structural; holds for every view) *)
Definition opt_entries (o : option view) : list (pfx * V) :=
  match o with Some v' => v_entries v' | None => [] end.
Definition own_entry (v : view) : list (pfx * V) :=
  match v_prefix_value v with Some e => [e] | None => [] end.

Theorem v_entries_decomp (v : view) :
  v_entries v = own_entry v ++ opt_entries (v_left v) ++ opt_entries (v_right v).
Proof.
  unfold own_entry, opt_entries, ViewsThm.v_entries. destruct v as [t|p t]; cbn [v_tree Views.v_prefix_value Views.v_left Views.v_right].
  - destruct t as [|i p0 v0 l r]; [reflexivity|]. cbn [tleft tright pv entries].
    destruct v0, l, r; cbn [app v_tree]; rewrite ?app_nil_r; reflexivity.
  - destruct (to_right p (tpfx t)); cbn [negb app v_tree]; [reflexivity | rewrite app_nil_r; reflexivity].
Qed.

(** the literal [prefix()] of a virtual result of [find q] is [q] itself (as passed, host bits
    included); a real result carries the stored node's prefix *)
Lemma find_walk_virt t : forall q p c, find_walk t q = Some (VVirt p c) -> p = q.
Proof.
  induction t as [|i0 p0 v0 l IHl r IHr]; intros q p c H; [discriminate|].
  cbn [Views.find_walk] in H.
  destruct (peq p0 q); [discriminate|].
  destruct (to_right p0 q).
  - destruct r as [|ci cp cv cl cr]; [discriminate|]. destruct (contains cp q); [apply (IHr q p c H)|].
    destruct (contains q cp); [|discriminate]. inversion H; reflexivity.
  - destruct l as [|ci cp cv cl cr]; [discriminate|]. destruct (contains cp q); [apply (IHl q p c H)|].
    destruct (contains q cp); [|discriminate]. inversion H; reflexivity.
Qed.

Theorem v_find_virt_prefix (v : view) q p c : v_find v q = Some (VVirt p c) -> p = q.
Proof.
  unfold Views.v_find. destruct (v_tree v) as [|i p0 v0 l r]; [discriminate|].
  destruct (contains q p0 && negb (peq p0 q)); [intros H; inversion H; reflexivity|].
  apply find_walk_virt.
Qed.

(* ---------------------------------------------------------------------------------------- *)
(** * 2. [find_exact] is [find] on stored queries; [find_lpm] is [find_exact] at the best match *)

Lemma find_exact_walk_find t : forall q v', find_exact_walk t q = Some v' -> find_walk t q = Some v'.
Proof.
  induction t as [|i0 p0 v0 l IHl r IHr]; intros q v' H; [discriminate|].
  cbn [Views.find_exact_walk] in H. cbn [Views.find_walk].
  destruct (peq p0 q).
  - destruct (is_some v0); [exact H | discriminate].
  - destruct (to_right p0 q).
    + destruct r as [|ci cp cv cl cr]; [discriminate|]. destruct (contains cp q); [apply IHr; exact H | discriminate].
    + destruct l as [|ci cp cv cl cr]; [discriminate|]. destruct (contains cp q); [apply IHl; exact H | discriminate].
Qed.

(** whenever [find_exact q] answers, [find q] gives the very same view *)
Theorem v_find_exact_find (v : view) q v' :
  view_wf v -> ok q -> v_find_exact v q = Some v' -> v_find v q = Some v'.
Proof.
  intros Hv Hq H. pose proof (L_v_find_exact_spec v q Hv Hq) as Hs. rewrite H in Hs.
  destruct Hs as [_ [_ [Hk [x [_ Hin]]]]].
  destruct Hv as [Hn [[b Hwf] _]].
  unfold Views.v_find_exact in H. unfold Views.v_find. unfold ViewsThm.v_entries in Hin.
  destruct (v_tree v) as [|i p v0 l r]; [discriminate|].
  pose proof (wf_node_inv _ _ _ _ _ _ _ _ _ _ Hwf) as [Hp _].
  pose proof (entries_under _ _ _ _ _ _ _ (wf_self _ _ _ _ _ _ _ _ _ _ Hwf) Hin) as Hu.
  unfold TrieWf.key in Hu. cbn [fst] in Hu. rewrite Hk in Hu.
  destruct (contains q p && negb (peq p q)) eqn:C; [|apply find_exact_walk_find; exact H].
  exfalso. apply andb_true_iff in C. destruct C as [C1 C2]. apply negb_true_iff in C2.
  apply (L_peq_false p q Hp Hq C2). apply prefix_of_antisym; [exact Hu|].
  apply L_contains_true; assumption.
Qed.

(** [find_exact q] answers exactly when [q] is stored in the view *)
Theorem v_find_exact_iff (v : view) q :
  view_wf v -> ok q ->
  (v_find_exact v q <> None <-> exists e, In e (v_entries v) /\ key e = bits q).
Proof.
  intros Hv Hq. pose proof (L_v_find_exact_spec v q Hv Hq) as Hs. split.
  - destruct (v_find_exact v q) as [v'|]; [|intros H; exfalso; apply H; reflexivity].
    intros _. destruct Hs as [_ [_ [Hk [x [_ Hin]]]]]. exists (v_prefix v', x). split; [exact Hin | exact Hk].
  - intros [e [Hin Hk]] E. rewrite E in Hs. exact (Hs e Hin Hk).
Qed.

(** the full description of the view returned by [find_exact q]: a real node, well-formed,
    positioned at [q], carrying the value stored at [q], and addressing exactly the entries of
    the view covered by [q] *)
Theorem v_find_exact_full (v : view) q v' :
  view_wf v -> ok q -> v_find_exact v q = Some v' ->
  view_wf v' /\ v_is_virtual v' = false /\ bits (v_prefix v') = bits q /\
  (exists x, v_value v' = Some x /\ In (v_prefix v', x) (v_entries v)) /\
  (forall e, In e (v_entries v') <-> In e (v_entries v) /\ prefix_of (bits q) (key e)).
Proof.
  intros Hv Hq H. pose proof (L_v_find_exact_spec v q Hv Hq) as Hs. rewrite H in Hs.
  destruct Hs as [A [B [C D]]]. split; [exact A|]. split; [exact B|]. split; [exact C|]. split; [exact D|].
  pose proof (L_v_find_spec v q Hv Hq) as Hf. rewrite (v_find_exact_find v q v' Hv Hq H) in Hf.
  apply Hf.
Qed.

(** the node [find_exact] returns is a valued node of the tree *)
Lemma find_exact_walk_in c : forall q t',
  find_exact_walk c q = Some (VNode t') -> exists x, In (tpfx t', x) (entries c).
Proof.
  induction c as [|j pj vj lj IHlj rj IHrj]; intros q t' Hex; [discriminate|].
  cbn [Views.find_exact_walk] in Hex.
  destruct (peq pj q).
  - destruct vj as [x|]; cbn [is_some is_none negb] in Hex; [|discriminate].
    inversion Hex; subst. exists x. cbn [Trie.tpfx]. apply in_entries_own.
  - destruct (to_right pj q).
    + destruct rj as [|ci cp cv cl cr]; [discriminate|]. destruct (contains cp q); [|discriminate].
      destruct (IHrj q t' Hex) as [x Hx]. exists x. apply in_entries_r. exact Hx.
    + destruct lj as [|ci cp cv cl cr]; [discriminate|]. destruct (contains cp q); [|discriminate].
      destruct (IHlj q t' Hex) as [x Hx]. exists x. apply in_entries_l. exact Hx.
Qed.

(** the longest-match loop returns either the inherited best or a node that [find_exact] reaches
    when asked for that node's own prefix *)
Lemma find_lpm_walk_exact t : forall b q best v',
  wf_under b t -> ok q -> root_covers t q ->
  find_lpm_walk t q best = Some v' ->
  best = Some v' \/ exists t', v' = VNode t' /\ find_exact_walk t (tpfx t') = Some v'.
Proof.
  induction t as [|i0 p0 v0 l IHl r IHr]; intros b q best v' Hwf Hq Hrc H; [left; exact H|].
  pose proof (wf_node_inv _ _ _ _ _ _ _ _ _ _ Hwf) as [Hp [_ [Hl Hr]]].
  cbn in Hrc. cbn [Views.find_lpm_walk] in H.
  set (best1 := if is_some v0 then Some (VNode (Node i0 p0 v0 l r)) else best) in *.
  assert (Hstop : best1 = Some v' ->
            best = Some v' \/ exists t', v' = VNode t' /\ find_exact_walk (Node i0 p0 v0 l r) (tpfx t') = Some v').
  { subst best1. destruct (is_some v0) eqn:Ev; [|auto]. intros E. inversion E; subst. right.
    exists (Node i0 p0 v0 l r). split; [reflexivity|]. cbn [Trie.tpfx Views.find_exact_walk].
    rewrite (L_peq_refl p0 p0 Hp Hp eq_refl), Ev. reflexivity. }
  destruct (peq p0 q) eqn:E; [apply Hstop; exact H|].
  destruct (enter_child pfx V peq contains is_bit_set plen lcp pzero mcmp bits ok LAWS _ _ _ _ _ _ _ Hwf Hq Hrc E)
    as [Hc [Hside _]].
  assert (Hgo : forall c, wf_under (bits p0 ++ [to_right p0 q]) c ->
            c = (if to_right p0 q then r else l) ->
            (forall b' q' best' v'', wf_under b' c -> ok q' -> root_covers c q' ->
               find_lpm_walk c q' best' = Some v'' ->
               best' = Some v'' \/ exists t', v'' = VNode t' /\ find_exact_walk c (tpfx t') = Some v'') ->
            match c with
            | Node _ cp _ _ _ => if contains cp q then find_lpm_walk c q best1 else best1
            | Leaf => best1
            end = Some v' ->
            best = Some v' \/ exists t', v' = VNode t' /\ find_exact_walk (Node i0 p0 v0 l r) (tpfx t') = Some v').
  { intros c Hwc Ec IH Hres. destruct c as [|ci cp cv cl cr]; [apply Hstop; exact Hres|].
    pose proof (wf_node_inv _ _ _ _ _ _ _ _ _ _ Hwc) as [Hcp _].
    destruct (contains cp q) eqn:C; [|apply Hstop; exact Hres].
    destruct (IH _ q best1 v' Hwc Hq (root_covers_child pfx V peq contains is_bit_set plen lcp pzero mcmp bits ok LAWS cp ci cv cl cr q Hcp Hq C) Hres)
      as [Hb|[t' [-> Hex]]]; [apply Hstop; exact Hb|].
    right. exists t'. split; [reflexivity|].
    (* the exact descent for [tpfx t'] from the parent enters the same child *)
    assert (Hokt : ok (tpfx t') /\ prefix_of (bits p0 ++ [to_right p0 q]) (bits (tpfx t')) /\ prefix_of (bits cp) (bits (tpfx t'))).
    { (* [t'] is a valued node inside [c]: from the sound half of the lpm loop *)
      destruct (find_exact_walk_in _ _ t' Hex) as [x Hin]. split; [|split].
      - exact (entries_ok pfx V bits ok _ _ _ Hwc Hin).
      - exact (entries_under _ _ _ _ _ _ _ Hwc Hin).
      - exact (entries_under _ _ _ _ _ _ _ (wf_self _ _ _ _ _ _ _ _ _ _ Hwc) Hin). }
    destruct Hokt as [Hokt [Hund Hcov]].
    cbn [Views.find_exact_walk].
    assert (Epq : peq p0 (tpfx t') = false).
    { destruct (peq p0 (tpfx t')) eqn:E'; [|reflexivity]. exfalso.
      eapply below_neq; [exact Hund|]. symmetry. apply L_peq_true; assumption. }
    rewrite Epq.
    assert (Etr : to_right p0 (tpfx t') = to_right p0 q).
    { rewrite (L_to_right_spec p0 (tpfx t') Hp Hokt). apply ext_bit. exact Hund. }
    rewrite Etr, <- Ec. rewrite (L_contains_intro cp (tpfx t') Hcp Hokt Hcov). exact Hex. }
  destruct (to_right p0 q) eqn:S.
  - apply (Hgo r Hc eq_refl); [intros; eapply IHr; eauto | exact H].
  - apply (Hgo l Hc eq_refl); [intros; eapply IHl; eauto | exact H].
Qed.

(** [find_lpm q] returns the view that [find_exact] returns for the longest stored prefix of the
    view covering [q] — hence (by [v_find_exact_full]) a real, well-formed view positioned at that
    prefix, carrying its value, addressing exactly the entries of the view below it *)
Theorem v_find_lpm_full (v : view) q v' :
  view_wf v -> ok q -> v_find_lpm v q = Some v' ->
  exists e, is_lpm (v_entries v) q e /\ v_prefix_value v' = Some e /\ v_find_exact v (fst e) = Some v'.
Proof.
  intros Hv Hq H. pose proof (L_v_find_lpm_spec v q Hv Hq) as Hs. rewrite H in Hs.
  destruct Hs as [e [Hvirt [Hpv Hlpm]]]. exists e. split; [exact Hlpm|]. split; [exact Hpv|].
  destruct Hv as [Hn [[b Hwf] _]]. unfold Views.v_find_lpm in H. unfold Views.v_find_exact.
  destruct (v_tree v) as [|i p v0 l r] eqn:Et; [discriminate|].
  pose proof (wf_node_inv _ _ _ _ _ _ _ _ _ _ Hwf) as [Hp _].
  destruct (contains p q) eqn:C; [|discriminate].
  assert (Hrc : root_covers (Node i p v0 l r) q) by (cbn; apply L_contains_true; assumption).
  destruct (find_lpm_walk_exact _ b q None v' Hwf Hq Hrc H) as [Hb|[t' [-> Hex]]]; [discriminate|].
  cbn [Views.v_prefix_value] in Hpv. destruct t' as [|i' p' [x'|] l' r']; cbn [pv] in Hpv; try discriminate.
  inversion Hpv; subst. cbn [fst Trie.tpfx] in *. exact Hex.
Qed.

(** [find_lpm] answers exactly when the view stores a prefix covering [q] *)
Theorem v_find_lpm_iff (v : view) q :
  view_wf v -> ok q ->
  (v_find_lpm v q <> None <-> exists e, In e (v_entries v) /\ prefix_of (key e) (bits q)).
Proof.
  intros Hv Hq. pose proof (L_v_find_lpm_spec v q Hv Hq) as Hs. split.
  - destruct (v_find_lpm v q) as [v'|]; [|intros H; exfalso; apply H; reflexivity].
    intros _. destruct Hs as [e [_ [_ [Hin [Hc _]]]]]. exists e. split; assumption.
  - intros [e [Hin Hc]] E. rewrite E in Hs. exact (Hs e Hin Hc).
Qed.


(** the full description of the view returned by [find_lpm q] *)
Theorem v_find_lpm_view (v : view) q v' :
  view_wf v -> ok q -> v_find_lpm v q = Some v' ->
  exists e, is_lpm (v_entries v) q e /\
    view_wf v' /\ v_is_virtual v' = false /\ v_prefix v' = fst e /\ v_value v' = Some (snd e) /\
    (forall e', In e' (v_entries v') <-> In e' (v_entries v) /\ prefix_of (key e) (key e')).
Proof.
  intros Hv Hq H. destruct (v_find_lpm_full v q v' Hv Hq H) as [e [Hl [Hpv Hex]]].
  exists e. split; [exact Hl|].
  assert (Hoke : ok (fst e)) by (destruct Hl as [Hin _]; exact (v_entries_ok v e Hv Hin)).
  destruct (v_find_exact_full v (fst e) v' Hv Hoke Hex) as [A [B [_ [_ D]]]].
  split; [exact A|]. split; [exact B|].
  destruct v' as [t'|p' t']; [|discriminate]. cbn [Views.v_prefix_value Views.v_prefix Views.v_value] in *.
  destruct t' as [|i' p' [x'|] l' r']; cbn [pv] in Hpv; try discriminate. inversion Hpv; subst.
  cbn [Trie.tpfx tval fst snd]. split; [reflexivity|]. split; [reflexivity|]. exact D.
Qed.

(** a query covering the view's real node (in particular: covering the view's prefix, or lying
    between a virtual root and its real node) addresses the whole view *)
Theorem v_find_above (v : view) q :
  view_wf v -> ok q -> prefix_of (bits q) (bits (tpfx (v_tree v))) ->
  exists v', v_find v q = Some v' /\ v_tree v' = v_tree v /\ v_entries v' = v_entries v.
Proof.
  intros [Hn [[b Hwf] _]] Hq Hcov. unfold Views.v_find, ViewsThm.v_entries.
  destruct (v_tree v) as [|i p v0 l r]; [discriminate|]. cbn [Trie.tpfx] in Hcov.
  pose proof (wf_node_inv _ _ _ _ _ _ _ _ _ _ Hwf) as [Hp _].
  rewrite (L_contains_intro q p Hq Hp Hcov). cbn [andb].
  destruct (peq p q) eqn:E; cbn [negb].
  - cbn [Views.find_walk]. rewrite E. eexists. split; [reflexivity|]. split; reflexivity.
  - eexists. split; [reflexivity|]. split; reflexivity.
Qed.

(** a query disjoint from the view's prefix finds nothing, by any of the three searches *)
Theorem v_find_disjoint (v : view) q :
  view_wf v -> ok q ->
  ~ prefix_of (bits q) (bits (v_prefix v)) -> ~ prefix_of (bits (v_prefix v)) (bits q) ->
  v_find v q = None /\ v_find_exact v q = None /\ v_find_lpm v q = None.
Proof.
  intros Hv Hq H1 H2.
  assert (Hnone : forall e, In e (v_entries v) -> ~ prefix_of (bits q) (key e) /\ ~ prefix_of (key e) (bits q)).
  { intros e Hin. pose proof (v_entries_under pfx V pzero bits ok v e Hv Hin) as Hu. split; intros Hc.
    - destruct (prefix_of_comparable _ _ _ Hc Hu) as [H|H]; [exact (H1 H) | exact (H2 H)].
    - apply H2. eapply prefix_of_trans; eassumption. }
  split; [|split].
  - (* the real node is disjoint from the query, too *)
    destruct Hv as [Hn [[b Hwf] Hvv]]. unfold Views.v_find.
    destruct (v_tree v) as [|i p v0 l r] eqn:Et; [discriminate|].
    pose proof (wf_node_inv _ _ _ _ _ _ _ _ _ _ Hwf) as [Hp _].
    assert (Hrel : prefix_of (bits (v_prefix v)) (bits p)).
    { destruct v as [t|p' t]; cbn [v_tree Views.v_prefix] in *; subst; [apply prefix_of_refl|].
      cbn [Trie.tpfx] in Hvv. tauto. }
    assert (Hqp : ~ prefix_of (bits q) (bits p)).
    { intros Hc. destruct (prefix_of_comparable _ _ _ Hc Hrel) as [H|H]; [exact (H1 H) | exact (H2 H)]. }
    assert (Hpq : ~ prefix_of (bits p) (bits q)).
    { intros Hc. apply H2. eapply prefix_of_trans; eassumption. }
    assert (C : contains q p = false).
    { destruct (contains q p) eqn:C; [|reflexivity]. exfalso. apply Hqp. apply L_contains_true; assumption. }
    rewrite C. cbn [andb].
    apply (find_walk_disjoint pfx V peq contains is_bit_set plen lcp pzero mcmp bits ok LAWS b (Node i p v0 l r) q Hwf Hq); assumption.
  - destruct (v_find_exact v q) as [v'|] eqn:E; [|reflexivity]. exfalso.
    assert (Hne : v_find_exact v q <> None) by congruence.
    apply (v_find_exact_iff v q Hv Hq) in Hne. destruct Hne as [e [Hin Hk]].
    apply (proj1 (Hnone e Hin)). rewrite Hk. apply prefix_of_refl.
  - destruct (v_find_lpm v q) as [v'|] eqn:E; [|reflexivity]. exfalso.
    assert (Hne : v_find_lpm v q <> None) by congruence.
    apply (v_find_lpm_iff v q Hv Hq) in Hne. destruct Hne as [e [Hin Hc]].
    exact (proj2 (Hnone e Hin) Hc).
Qed.

(* ---------------------------------------------------------------------------------------- *)
(** * 3. closure under navigation *)

(** one navigation step from a view *)
Inductive v_step (v v' : view) : Prop :=
| VS_left : v_left v = Some v' -> v_step v v'
| VS_right : v_right v = Some v' -> v_step v v'
| VS_find q : ok q -> v_find v q = Some v' -> v_step v v'
| VS_find_exact q : ok q -> v_find_exact v q = Some v' -> v_step v v'
| VS_find_lpm q : ok q -> v_find_lpm v q = Some v' -> v_step v v'.

Inductive v_reach (v : view) : view -> Prop :=
| VR_refl : v_reach v v
| VR_step v1 v2 : v_reach v v1 -> v_step v1 v2 -> v_reach v v2.

Lemma v_lpm_key_ok (v : view) q e : view_wf v -> is_lpm (v_entries v) q e -> ok (fst e).
Proof. intros Hv [Hin _]. exact (v_entries_ok v e Hv Hin). Qed.

Theorem v_step_wf (v v' : view) :
  view_wf v -> v_step v v' -> view_wf v' /\ incl (v_entries v') (v_entries v).
Proof.
  intros Hv [H|H|q Hq H|q Hq H|q Hq H].
  - pose proof (L_v_side_spec v false Hv) as Hs. cbn in Hs. rewrite H in Hs.
    destruct Hs as [A [_ B]]. split; [exact A|]. intros e He. apply B. exact He.
  - pose proof (L_v_side_spec v true Hv) as Hs. cbn in Hs. rewrite H in Hs.
    destruct Hs as [A [_ B]]. split; [exact A|]. intros e He. apply B. exact He.
  - pose proof (L_v_find_spec v q Hv Hq) as Hs. rewrite H in Hs.
    destruct Hs as [A [_ B]]. split; [exact A|]. intros e He. apply B. exact He.
  - destruct (v_find_exact_full v q v' Hv Hq H) as [A [_ [_ [_ B]]]]. split; [exact A|].
    intros e He. apply B. exact He.
  - destruct (v_find_lpm_full v q v' Hv Hq H) as [e [Hl [_ Hex]]].
    destruct (v_find_exact_full v (fst e) v' Hv (v_lpm_key_ok v q e Hv Hl) Hex) as [A [_ [_ [_ B]]]].
    split; [exact A|]. intros e' He. apply B. exact He.
Qed.

(** every view reachable by any sequence of left / right / find / find_exact / find_lpm is
    well-formed (so every theorem about well-formed views applies to it, recursively) and addresses
    a subset of the entries of the view one started from *)
Theorem v_reach_wf (v v' : view) :
  view_wf v -> v_reach v v' -> view_wf v' /\ incl (v_entries v') (v_entries v).
Proof.
  intros Hv Hr. induction Hr as [|v1 v2 Hr IH Hs]; [split; [exact Hv | apply incl_refl]|].
  destruct IH as [A B]. destruct (v_step_wf v1 v2 A Hs) as [C D]. split; [exact C|].
  eapply incl_tran; eassumption.
Qed.

(* ---------------------------------------------------------------------------------------- *)
(** * 4. canonical trees: no empty sub-views *)

(** the canonicity invariant of a view: either its subtree is canonical as a subtree below the
    root ([canon_below]: every value-less node has two children, so it holds an entry), or the view
    is the whole-map view of a canonical map *)
Definition vcanon (v : view) : Prop :=
  canon_below (v_tree v) \/
  (v_is_virtual v = false /\ canonical (v_tree v) /\ bits (tpfx (v_tree v)) = []).

Lemma vcanon_root (T : tree) : wf_root T -> canonical T -> vcanon (view_of T).
Proof.
  intros Hwf Hc. right. split; [reflexivity|]. split; [exact Hc|].
  cbn [view_of v_tree]. destruct T as [|i p v l r]; [destruct Hwf|]. exact (proj1 Hwf).
Qed.

Lemma canon_below_children (t : tree) :
  canon_below t -> canon_below (tleft t) /\ canon_below (tright t).
Proof. destruct t as [|i p v l r]; cbn; tauto. Qed.

Lemma canonical_children (t : tree) :
  canonical t -> canon_below (tleft t) /\ canon_below (tright t).
Proof. destruct t as [|i p v l r]; cbn; tauto. Qed.

(** a view below the root of a canonical map holds at least one entry *)
Theorem v_canon_inhabited (v : view) :
  view_wf v -> canon_below (v_tree v) -> exists e, In e (v_entries v).
Proof. intros [Hn _] Hc. exact (canon_inhabited pfx V _ Hc Hn). Qed.

Lemma find_walk_canon t : forall q v',
  canon_below t -> find_walk t q = Some v' -> canon_below (v_tree v').
Proof.
  induction t as [|i0 p0 v0 l IHl r IHr]; intros q v' Hc H; [discriminate|].
  cbn [Views.find_walk] in H.
  destruct (peq p0 q); [inversion H; subst; exact Hc|].
  destruct Hc as [_ [Hl Hr]].
  destruct (to_right p0 q).
  - destruct r as [|ci cp cv cl cr]; [discriminate|]. destruct (contains cp q); [apply (IHr q v' Hr H)|].
    destruct (contains q cp); [|discriminate]. inversion H; subst. exact Hr.
  - destruct l as [|ci cp cv cl cr]; [discriminate|]. destruct (contains cp q); [apply (IHl q v' Hl H)|].
    destruct (contains q cp); [|discriminate]. inversion H; subst. exact Hl.
Qed.

(** from the root of a canonical map: the root itself, or something below it *)
Lemma find_walk_canonical t q v' :
  canonical t -> find_walk t q = Some v' -> v' = VNode t \/ canon_below (v_tree v').
Proof.
  destruct t as [|i0 p0 v0 l r]; intros Hc H; [discriminate|].
  cbn [Views.find_walk] in H.
  destruct (peq p0 q); [left; inversion H; reflexivity|]. right.
  destruct Hc as [Hl Hr].
  destruct (to_right p0 q).
  - destruct r as [|ci cp cv cl cr]; [discriminate|]. destruct (contains cp q); [apply (find_walk_canon _ q v' Hr H)|].
    destruct (contains q cp); [|discriminate]. inversion H; subst. exact Hr.
  - destruct l as [|ci cp cv cl cr]; [discriminate|]. destruct (contains cp q); [apply (find_walk_canon _ q v' Hl H)|].
    destruct (contains q cp); [|discriminate]. inversion H; subst. exact Hl.
Qed.

(** [find] keeps the invariant; the result lies below the root unless it is the whole-map view
    itself (which only the empty query returns) *)
Theorem v_find_canon (v : view) q v' :
  view_wf v -> vcanon v -> ok q -> v_find v q = Some v' ->
  vcanon v' /\ (bits q <> [] \/ canon_below (v_tree v) -> canon_below (v_tree v')).
Proof.
  intros Hv Hc Hq H. destruct Hc as [Hc|[Hvirt [Hc Hroot]]].
  - (* below the root: every result is a subtree *)
    assert (Hres : canon_below (v_tree v')).
    { unfold Views.v_find in H. destruct (v_tree v) as [|i p v0 l r] eqn:Et; [discriminate|].
      destruct (contains q p && negb (peq p q)); [inversion H; subst; exact Hc|].
      apply (find_walk_canon _ q v' Hc H). }
    split; [left; exact Hres | intros _; exact Hres].
  - (* the whole-map view *)
    destruct v as [t|p t]; [|discriminate]. cbn [v_tree] in *.
    destruct Hv as [Hn [[b Hwf] _]]. cbn [v_tree] in *.
    unfold Views.v_find in H. cbn [v_tree] in H.
    destruct t as [|i p v0 l r]; [discriminate|]. cbn [Trie.tpfx] in Hroot.
    pose proof (wf_node_inv _ _ _ _ _ _ _ _ _ _ Hwf) as [Hp _].
    destruct (contains q p && negb (peq p q)) eqn:C.
    { exfalso. apply andb_true_iff in C. destruct C as [C1 C2]. apply negb_true_iff in C2.
      pose proof (L_contains_true q p Hq Hp C1) as Hcov. rewrite Hroot in Hcov.
      apply prefix_of_nil_r in Hcov. apply (L_peq_false p q Hp Hq C2). congruence. }
    destruct (find_walk_canonical _ q v' Hc H) as [->|Hres].
    + split; [right; split; [reflexivity|]; split; [exact Hc | exact Hroot]|].
      intros [Hne|Hb]; [|exact Hb]. exfalso.
      cbn [Views.find_walk] in H. destruct (peq p q) eqn:E.
      * apply Hne. rewrite <- (L_peq_true p q Hp Hq E). exact Hroot.
      * (* a result equal to the root itself can only come from [peq] *)
        pose proof (find_walk_view pfx V peq contains is_bit_set plen lcp pzero mcmp bits ok LAWS
                      (Node i p v0 l r) b q (VNode (Node i p v0 l r)) Hwf Hq) as Hfw.
        assert (Hrc : root_covers (Node i p v0 l r) q) by (cbn; rewrite Hroot; apply prefix_of_nil).
        cbn [Views.find_walk] in Hfw. rewrite E in Hfw. destruct (Hfw Hrc H) as [_ Hk].
        cbn [Views.v_prefix Trie.tpfx] in Hk. apply Hne. rewrite <- Hk. exact Hroot.
    + split; [left; exact Hres | intros _; exact Hres].
Qed.

(** [left] / [right] of any canonical view lie below the root *)
Theorem v_side_canon (v : view) (s : bool) v' :
  view_wf v -> vcanon v -> (if s then v_right v else v_left v) = Some v' -> canon_below (v_tree v').
Proof.
  intros Hv Hc H.
  assert (Hch : canon_below (tleft (v_tree v)) /\ canon_below (tright (v_tree v))).
  { destruct Hc as [Hc|[_ [Hc _]]]; [apply canon_below_children | apply canonical_children]; exact Hc. }
  destruct v as [t|p t]; cbn [v_tree] in *.
  - destruct s; cbn [Views.v_left Views.v_right] in H.
    + destruct (tright t) as [|ci cp cv cl cr] eqn:E; [discriminate|]. inversion H; subst. exact (proj2 Hch).
    + destruct (tleft t) as [|ci cp cv cl cr] eqn:E; [discriminate|]. inversion H; subst. exact (proj1 Hch).
  - destruct Hc as [Hc|[Hvirt _]]; [|discriminate].
    destruct s; cbn [Views.v_left Views.v_right] in H.
    + destruct (to_right p (tpfx t)); [|discriminate]. inversion H; subst. exact Hc.
    + destruct (negb (to_right p (tpfx t))); [|discriminate]. inversion H; subst. exact Hc.
Qed.

Theorem v_step_canon (v v' : view) : view_wf v -> vcanon v -> v_step v v' -> vcanon v'.
Proof.
  intros Hv Hc [H|H|q Hq H|q Hq H|q Hq H].
  - left. exact (v_side_canon v false v' Hv Hc H).
  - left. exact (v_side_canon v true v' Hv Hc H).
  - exact (proj1 (v_find_canon v q v' Hv Hc Hq H)).
  - exact (proj1 (v_find_canon v q v' Hv Hc Hq (v_find_exact_find v q v' Hv Hq H))).
  - destruct (v_find_lpm_full v q v' Hv Hq H) as [e [Hl [_ Hex]]].
    pose proof (v_lpm_key_ok v q e Hv Hl) as Hoke.
    exact (proj1 (v_find_canon v (fst e) v' Hv Hc Hoke (v_find_exact_find v (fst e) v' Hv Hoke Hex))).
Qed.

(** every view reachable from a canonical view is canonical *)
Theorem v_reach_canon (v v' : view) : view_wf v -> vcanon v -> v_reach v v' -> vcanon v'.
Proof.
  intros Hv Hc Hr. induction Hr as [|v1 v2 Hr IH Hs]; [exact Hc|].
  apply (v_step_canon v1 v2); [exact (proj1 (v_reach_wf v v1 Hv Hr)) | exact IH | exact Hs].
Qed.

(** steps from a view below the root stay below the root *)
Theorem v_step_canon_below (v v' : view) :
  view_wf v -> canon_below (v_tree v) -> v_step v v' -> canon_below (v_tree v').
Proof.
  intros Hv Hc Hs. assert (Hvc : vcanon v) by (left; exact Hc).
  destruct Hs as [H|H|q Hq H|q Hq H|q Hq H].
  - exact (v_side_canon v false v' Hv Hvc H).
  - exact (v_side_canon v true v' Hv Hvc H).
  - exact (proj2 (v_find_canon v q v' Hv Hvc Hq H) (or_intror Hc)).
  - exact (proj2 (v_find_canon v q v' Hv Hvc Hq (v_find_exact_find v q v' Hv Hq H)) (or_intror Hc)).
  - destruct (v_find_lpm_full v q v' Hv Hq H) as [e [Hl [_ Hex]]].
    pose proof (v_lpm_key_ok v q e Hv Hl) as Hoke.
    exact (proj2 (v_find_canon v (fst e) v' Hv Hvc Hoke (v_find_exact_find v (fst e) v' Hv Hoke Hex)) (or_intror Hc)).
Qed.

(** one step from the whole-map view of a canonical map: the whole-map view again, or below *)
Lemma v_step_root_canon (T : tree) (v' : view) :
  wf_root T -> canonical T -> v_step (view_of T) v' -> v' = view_of T \/ canon_below (v_tree v').
Proof.
  intros HT Hc Hs.
  pose proof (view_wf_root pfx V pzero bits ok T HT) as Hv.
  pose proof (vcanon_root T HT Hc) as Hvc.
  assert (Hfind : forall q, ok q -> v_find (view_of T) q = Some v' -> v' = view_of T \/ canon_below (v_tree v')).
  { intros q Hq H. unfold Views.v_find, view_of in H. cbn [v_tree] in H.
    destruct T as [|i p v0 l r]; [discriminate|]. destruct HT as [Hroot Hwf].
    pose proof (wf_node_inv _ _ _ _ _ _ _ _ _ _ Hwf) as [Hp _].
    destruct (contains q p && negb (peq p q)) eqn:C; [|exact (find_walk_canonical _ q v' Hc H)].
    exfalso. apply andb_true_iff in C. destruct C as [C1 C2]. apply negb_true_iff in C2.
    pose proof (L_contains_true q p Hq Hp C1) as Hcov. rewrite Hroot in Hcov.
    apply prefix_of_nil_r in Hcov. apply (L_peq_false p q Hp Hq C2). congruence. }
  destruct Hs as [H|H|q Hq H|q Hq H|q Hq H].
  - right. exact (v_side_canon _ false v' Hv Hvc H).
  - right. exact (v_side_canon _ true v' Hv Hvc H).
  - exact (Hfind q Hq H).
  - exact (Hfind q Hq (v_find_exact_find _ q v' Hv Hq H)).
  - destruct (v_find_lpm_full _ q v' Hv Hq H) as [e [Hl [_ Hex]]].
    pose proof (v_lpm_key_ok _ q e Hv Hl) as Hoke.
    exact (Hfind (fst e) Hoke (v_find_exact_find _ (fst e) v' Hv Hoke Hex)).
Qed.

(** every view reachable from the whole-map view of a canonical map is the whole-map view itself or
    lies below the root — and then holds at least one entry *)
Theorem v_reach_canon_root (T : tree) (v : view) :
  wf_root T -> canonical T -> v_reach (view_of T) v ->
  v = view_of T \/ (canon_below (v_tree v) /\ exists e, In e (v_entries v)).
Proof.
  intros HT Hc Hr.
  pose proof (view_wf_root pfx V pzero bits ok T HT) as Hv0.
  induction Hr as [|v1 v2 Hr IH Hs]; [left; reflexivity|].
  pose proof (proj1 (v_reach_wf _ v1 Hv0 Hr)) as Hv1.
  pose proof (proj1 (v_step_wf v1 v2 Hv1 Hs)) as Hv2.
  assert (Hfin : canon_below (v_tree v2) -> v2 = view_of T \/ (canon_below (v_tree v2) /\ exists e, In e (v_entries v2))).
  { intros Hb. right. split; [exact Hb | exact (v_canon_inhabited v2 Hv2 Hb)]. }
  destruct IH as [->|[Hb _]].
  - destruct (v_step_root_canon T v2 HT Hc Hs) as [E|Hb]; [left; exact E | exact (Hfin Hb)].
  - exact (Hfin (v_step_canon_below v1 v2 Hv1 Hb Hs)).
Qed.

(** on canonical trees a side exists EXACTLY when it contains an entry *)
Theorem v_side_canon_iff (v : view) (s : bool) :
  view_wf v -> vcanon v ->
  ((if s then v_right v else v_left v) <> None <->
   exists e, In e (v_entries v) /\ prefix_of (side_prefix v s) (key e)).
Proof.
  intros Hv Hc. pose proof (L_v_side_spec v s Hv) as Hs. split.
  - destruct (if s then v_right v else v_left v) as [v'|] eqn:E; [|intros H; exfalso; apply H; reflexivity].
    intros _. destruct Hs as [Hv' [_ Hm]].
    destruct (v_canon_inhabited v' Hv' (v_side_canon v s v' Hv Hc E)) as [e He].
    exists e. apply Hm. exact He.
  - intros [e [Hin Hcv]] E. rewrite E in Hs. exact (Hs e Hin Hcv).
Qed.

(** on canonical trees a sub-view exists EXACTLY when it contains an entry — for every query except
    the empty prefix asked of the whole-map view (which always exists) *)
Theorem v_find_canon_iff (v : view) q :
  view_wf v -> vcanon v -> ok q -> (bits q <> [] \/ canon_below (v_tree v)) ->
  (v_find v q <> None <-> exists e, In e (v_entries v) /\ prefix_of (bits q) (key e)).
Proof.
  intros Hv Hc Hq Hne. pose proof (L_v_find_spec v q Hv Hq) as Hs. split.
  - destruct (v_find v q) as [v'|] eqn:E; [|intros H; exfalso; apply H; reflexivity].
    intros _. destruct Hs as [Hv' [_ Hm]].
    destruct (v_canon_inhabited v' Hv' (proj2 (v_find_canon v q v' Hv Hc Hq E) Hne)) as [e He].
    exists e. apply Hm. exact He.
  - intros [e [Hin Hcv]] E. rewrite E in Hs. exact (Hs e Hin Hcv).
Qed.

(** the empty prefix asked of a whole map returns the whole-map view, whatever the map holds *)
Theorem view_at_root (T : tree) q : wf_root T -> ok q -> bits q = [] -> view_at T q = Some (view_of T).
Proof.
  intros Hwf Hq Hk. unfold Views.view_at, Views.v_find, view_of. cbn [v_tree].
  destruct T as [|i p v l r]; [destruct Hwf|]. destruct Hwf as [Hroot Hwf].
  pose proof (wf_node_inv _ _ _ _ _ _ _ _ _ _ Hwf) as [Hp _].
  assert (E : peq p q = true) by (apply L_peq_refl; [exact Hp | exact Hq | congruence]).
  rewrite E, andb_false_r. cbn [Views.find_walk]. rewrite E. reflexivity.
Qed.

Lemma plen_pos_bits q : ok q -> (plen q <> 0%N <-> bits q <> []).
Proof.
  intros Hq. rewrite (plen_bits _ _ _ _ _ _ _ _ _ _ LAWS q Hq).
  destruct (bits q); cbn [length]; split; intros H; try congruence; lia.
Qed.

End VX.

Print Assumptions v_iter_entries.
Print Assumptions v_entries_sorted.
Print Assumptions v_find_filter.
Print Assumptions v_side_filter.
Print Assumptions v_value_spec.
Print Assumptions v_find_value.
Print Assumptions v_entries_decomp.
Print Assumptions v_find_virt_prefix.
Print Assumptions v_find_exact_find.
Print Assumptions v_find_exact_iff.
Print Assumptions v_find_exact_full.
Print Assumptions v_find_lpm_full.
Print Assumptions v_find_lpm_iff.
Print Assumptions v_find_lpm_view.
Print Assumptions v_find_above.
Print Assumptions v_find_disjoint.
Print Assumptions v_step_wf.
Print Assumptions v_reach_wf.
Print Assumptions v_canon_inhabited.
Print Assumptions v_find_canon.
Print Assumptions v_side_canon.
Print Assumptions v_step_canon.
Print Assumptions v_reach_canon.
Print Assumptions v_step_canon_below.
Print Assumptions v_reach_canon_root.
Print Assumptions v_side_canon_iff.
Print Assumptions v_find_canon_iff.
Print Assumptions view_at_root.
