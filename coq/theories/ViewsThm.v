(** Views: a view addresses exactly the entries under its prefix; left/right split by the next
    bit; find / find_exact / find_lpm are relative to the view's entries; the [TrieViewMut] twins
    compute the same locations. *)
From Coq Require Import List NArith ZArith Bool Arith Lia Sorted.
From PT Require Import Bits BitsThm Laws Machine MachineThm Trie Views TrieWf Lookup Lookup2.
Import ListNotations.

Section VT.
Variables (pfx V : Type).
Variables (peq contains : pfx -> pfx -> bool) (is_bit_set : pfx -> N -> bool)
          (plen : pfx -> N) (lcp : pfx -> pfx -> pfx) (pzero : pfx)
          (mcmp : pfx -> pfx -> comparison).
Variable bits : pfx -> list bool.
Variable ok : pfx -> Prop.
Hypothesis LAWS : prefix_laws pfx peq contains is_bit_set plen lcp pzero mcmp bits ok.

Notation tree := (tree pfx V).
Notation view := (view pfx V).
Notation to_right := (to_right pfx is_bit_set plen).
Notation wf_under := (wf_under pfx V bits ok).
Notation key := (key pfx V bits).
Notation tpfx := (tpfx pfx V pzero).
Notation root_covers := (root_covers pfx V bits).
Notation children_start := (children_start pfx V peq contains is_bit_set plen).
Notation find_walk := (find_walk pfx V peq contains is_bit_set plen).
Notation v_find := (v_find pfx V peq contains is_bit_set plen).
Notation find_exact_walk := (find_exact_walk pfx V peq contains is_bit_set plen).
Notation v_find_exact := (v_find_exact pfx V peq contains is_bit_set plen).
Notation find_lpm_walk := (find_lpm_walk pfx V peq contains is_bit_set plen).
Notation v_find_lpm := (v_find_lpm pfx V peq contains is_bit_set plen).
Notation v_left := (v_left pfx V is_bit_set plen pzero).
Notation v_right := (v_right pfx V is_bit_set plen pzero).
Notation v_prefix := (v_prefix pfx V pzero).
Notation lpm_walk := (lpm_walk pfx V peq contains is_bit_set plen).
Notation get_node := (get_node pfx V peq contains is_bit_set plen).

Local Notation L_peq_true := (peq_true pfx peq contains is_bit_set plen lcp pzero mcmp bits ok LAWS).
Local Notation L_peq_false := (peq_false pfx peq contains is_bit_set plen lcp pzero mcmp bits ok LAWS).
Local Notation L_contains_true := (contains_true pfx peq contains is_bit_set plen lcp pzero mcmp bits ok LAWS).
Local Notation L_contains_false := (contains_false pfx peq contains is_bit_set plen lcp pzero mcmp bits ok LAWS).
Local Notation L_to_right_spec := (to_right_spec pfx peq contains is_bit_set plen lcp pzero mcmp bits ok LAWS).

(** a view is well-formed when its node's subtree is, and a virtual prefix lies strictly above
    the node (on the edge leading to it) *)
Definition view_wf (v : view) : Prop :=
  is_node (v_tree v) = true /\ (exists b, wf_under b (v_tree v)) /\
  match v with
  | VNode _ => True
  | VVirt p t => ok p /\ prefix_of (bits p) (bits (tpfx t)) /\ bits p <> bits (tpfx t)
  end.

Definition v_entries (v : view) : list (pfx * V) := entries (v_tree v).

Lemma view_wf_root T : wf_root pfx V bits ok T -> view_wf (view_of T).
Proof.
  destruct T as [|i p v l r]; [intros []|]. intros [_ H]. split; [reflexivity|]. split; [exists []; exact H|exact I].
Qed.

(** all entries of a view lie under its prefix *)
Lemma v_entries_under v e : view_wf v -> In e (v_entries v) -> prefix_of (bits (v_prefix v)) (key e).
Proof.
  intros [Hn [[b Hwf] Hv]] Hin. unfold v_entries in Hin.
  destruct v as [t|p t]; cbn [v_tree Views.v_prefix] in *;
    destruct t as [|i p0 v0 l r]; try discriminate.
  - apply (entries_under _ _ _ _ _ _ _ (wf_self _ _ _ _ _ _ _ _ _ _ Hwf) Hin).
  - destruct Hv as [_ [Hp _]]. eapply prefix_of_trans; [exact Hp|].
    apply (entries_under _ _ _ _ _ _ _ (wf_self _ _ _ _ _ _ _ _ _ _ Hwf) Hin).
Qed.

(* ---------------------------------------------------------------------------------------- *)
(** * find *)

(** the loop of [find] locates the same subtree as [lpm_children_iter_start] *)
Lemma find_walk_children t : forall q,
  match find_walk t q with
  | Some v' => children_start t q = [v_tree v']
  | None => children_start t q = []
  end.
Proof.
  induction t as [|i0 p0 v0 l IHl r IHr]; intros q; [reflexivity|].
  cbn [Views.find_walk Trie.children_start].
  destruct (peq p0 q); [reflexivity|].
  destruct (to_right p0 q).
  - destruct r as [|ci cp cv cl cr]; [reflexivity|]. destruct (contains cp q); [apply IHr|].
    destruct (contains q cp); reflexivity.
  - destruct l as [|ci cp cv cl cr]; [reflexivity|]. destruct (contains cp q); [apply IHl|].
    destruct (contains q cp); reflexivity.
Qed.

Lemma find_walk_view t : forall b q v',
  wf_under b t -> ok q -> root_covers t q -> find_walk t q = Some v' ->
  view_wf v' /\ bits (v_prefix v') = bits q.
Proof.
  induction t as [|i0 p0 v0 l IHl r IHr]; intros b q v' Hwf Hq Hrc H; [discriminate|].
  pose proof (wf_node_inv _ _ _ _ _ _ _ _ _ _ Hwf) as [Hp [_ [Hl Hr]]].
  cbn in Hrc. cbn [Views.find_walk] in H.
  destruct (peq p0 q) eqn:E.
  - inversion H; subst. split.
    + split; [reflexivity|]. split; [exists b; exact Hwf | exact I].
    + cbn. apply L_peq_true; assumption.
  - destruct (enter_child pfx V peq contains is_bit_set plen lcp pzero mcmp bits ok LAWS _ _ _ _ _ _ _ Hwf Hq Hrc E)
      as [Hc [Hside Hother]].
    assert (Hgo : forall c, wf_under (bits p0 ++ [to_right p0 q]) c ->
              (forall b' q' v'', wf_under b' c -> ok q' -> root_covers c q' -> find_walk c q' = Some v'' ->
                                 view_wf v'' /\ bits (v_prefix v'') = bits q') ->
              match c with
              | Leaf => None
              | Node _ cp _ _ _ => if contains cp q then find_walk c q
                                   else if contains q cp then Some (VVirt q c) else None
              end = Some v' -> view_wf v' /\ bits (v_prefix v') = bits q).
    { intros c Hwc IH Hres. destruct c as [|ci cp cv cl cr]; [discriminate|].
      pose proof (wf_node_inv _ _ _ _ _ _ _ _ _ _ Hwc) as [Hcp _].
      destruct (contains cp q) eqn:C.
      - eapply IH; eauto. eapply root_covers_child; eauto.
      - destruct (contains q cp) eqn:C2; [|discriminate]. inversion Hres; subst. split; [|reflexivity].
        split; [reflexivity|]. split; [eexists; exact Hwc|]. cbn [Trie.tpfx].
        split; [exact Hq|]. split; [apply L_contains_true; assumption|].
        intros Eq. eapply (L_contains_false cp q); [exact Hcp | exact Hq | exact C|]. rewrite Eq. apply prefix_of_refl. }
    destruct (to_right p0 q).
    + eapply (Hgo r); [exact Hc | intros; eapply IHr; eauto | exact H].
    + eapply (Hgo l); [exact Hc | intros; eapply IHl; eauto | exact H].
Qed.

(** when the node of the view neither covers the query nor is covered by it, nothing is found
    and nothing in the view is covered *)
Lemma find_walk_disjoint b t q :
  wf_under b t -> ok q -> ~ root_covers t q ->
  match t with Leaf => True | Node _ p _ _ _ => ~ prefix_of (bits q) (bits p) end ->
  find_walk t q = None /\ forall e, In e (entries t) -> ~ prefix_of (bits q) (key e).
Proof.
  intros Hwf Hq Hnrc Hnc. destruct t as [|i p v l r]; [split; [reflexivity | intros e []]|].
  pose proof (wf_node_inv _ _ _ _ _ _ _ _ _ _ Hwf) as [Hp [_ [Hl Hr]]]. cbn in Hnrc.
  assert (Hent : forall e, In e (entries (Node i p v l r)) -> ~ prefix_of (bits q) (key e)).
  { intros e Hin Hcv.
    pose proof (entries_under _ _ _ _ _ _ _ (wf_self _ _ _ _ _ _ _ _ _ _ Hwf) Hin) as Hu.
    destruct (prefix_of_comparable _ _ _ Hcv Hu) as [H|H]; [apply Hnc; exact H | apply Hnrc; exact H]. }
  split; [|exact Hent].
  cbn [Views.find_walk].
  destruct (peq p q) eqn:E.
  { exfalso. apply Hnrc. rewrite (L_peq_true p q Hp Hq E). apply prefix_of_refl. }
  assert (Hgo : forall c s, wf_under (bits p ++ [s]) c ->
            match c with
            | Leaf => None
            | Node _ cp _ _ _ => if contains cp q then find_walk c q
                                 else if contains q cp then Some (VVirt q c) else None
            end = None).
  { intros c s Hwc. destruct c as [|ci cp cv cl cr]; [reflexivity|].
    pose proof (wf_node_inv _ _ _ _ _ _ _ _ _ _ Hwc) as [Hcp [Hcb _]].
    destruct (contains cp q) eqn:C.
    - exfalso. apply Hnrc. eapply prefix_of_trans; [|apply (L_contains_true cp q Hcp Hq C)].
      eapply below_prefix. exact Hcb.
    - destruct (contains q cp) eqn:C2; [|reflexivity]. exfalso.
      pose proof (L_contains_true q cp Hq Hcp C2) as H1.
      assert (H2 : prefix_of (bits p) (bits cp)) by (eapply below_prefix; exact Hcb).
      destruct (prefix_of_comparable _ _ _ H1 H2) as [H|H]; [apply Hnc; exact H | apply Hnrc; exact H]. }
  destruct (to_right p q); [eapply (Hgo r true); exact Hr | eapply (Hgo l false); exact Hl].
Qed.

(** [find]: a view addressing exactly the entries of [v] covered by [q], positioned at [q];
    [None] only if there are none *)
Theorem v_find_spec v q :
  view_wf v -> ok q ->
  match v_find v q with
  | Some v' =>
    view_wf v' /\ bits (v_prefix v') = bits q /\
    forall e, In e (v_entries v') <-> In e (v_entries v) /\ prefix_of (bits q) (key e)
  | None => forall e, In e (v_entries v) -> ~ prefix_of (bits q) (key e)
  end.
Proof.
  intros [Hn [[b Hwf] Hv]] Hq. unfold Views.v_find, v_entries.
  destruct (v_tree v) as [|i p v0 l r] eqn:Ht; [discriminate|].
  pose proof (wf_node_inv _ _ _ _ _ _ _ _ _ _ Hwf) as [Hp _].
  destruct (contains q p && negb (peq p q)) eqn:C.
  - (* the query covers the view's node: the whole view, re-rooted at the query *)
    apply andb_true_iff in C. destruct C as [C1 C2]. apply negb_true_iff in C2.
    pose proof (L_contains_true q p Hq Hp C1) as Hcov.
    split; [|split; [reflexivity|]].
    + split; [reflexivity|]. split; [exists b; exact Hwf|]. cbn [Trie.tpfx].
      split; [exact Hq|]. split; [exact Hcov|]. intros E. apply (L_peq_false p q Hp Hq C2). symmetry. exact E.
    + intros e. cbn [v_tree]. split; [|tauto]. intros Hin. split; [exact Hin|].
      eapply prefix_of_trans; [exact Hcov|].
      apply (entries_under _ _ _ _ _ _ _ (wf_self _ _ _ _ _ _ _ _ _ _ Hwf) Hin).
  - (* otherwise descend *)
    destruct (contains p q) eqn:Cpq.
    + assert (Hrc : root_covers (Node i p v0 l r) q) by (cbn; apply L_contains_true; assumption).
      pose proof (find_walk_children (Node i p v0 l r) q) as Hch.
      destruct (children_start_spec pfx V peq contains is_bit_set plen lcp pzero mcmp bits ok LAWS _ _ _ Hwf Hq Hrc)
        as [_ [_ Hmem]].
      destruct (find_walk (Node i p v0 l r) q) as [v'|] eqn:F.
      * destruct (find_walk_view _ _ _ _ Hwf Hq Hrc F) as [A B]. split; [exact A|]. split; [exact B|].
        intros e. rewrite <- Hmem, Hch. cbn [flat_map]. rewrite app_nil_r. tauto.
      * intros e Hin Hcv. rewrite Hch in Hmem. cbn in Hmem. apply (Hmem e). tauto.
    + (* the node does not cover the query; it is not covered by it either *)
      assert (Hnq : ~ prefix_of (bits q) (bits p)).
      { intros H. apply andb_false_iff in C. destruct C as [C|C].
        - eapply (L_contains_false q p); eauto.
        - apply negb_false_iff in C. pose proof (L_peq_true p q Hp Hq C) as E.
          eapply (L_contains_false p q); eauto. rewrite E. apply prefix_of_refl. }
      destruct (find_walk_disjoint b (Node i p v0 l r) q Hwf Hq) as [F Hnone].
      * cbn. apply L_contains_false; assumption.
      * exact Hnq.
      * rewrite F. exact Hnone.
Qed.

(** the value of a view positioned at [q] is the value stored exactly at [q] *)
Lemma v_value_own v x :
  view_wf v -> (v_value v = Some x <-> In (v_prefix v, x) (v_entries v) /\ v_is_virtual v = false).
Proof.
  intros [Hn [[b Hwf] Hv]]. destruct v as [t|p t]; cbn [Views.v_value v_is_virtual Views.v_prefix v_entries v_tree] in *.
  - destruct t as [|i p0 v0 l r]; [discriminate|]. cbn [tval Trie.tpfx]. split.
    + intros ->. split; [apply in_entries_own | reflexivity].
    + intros [Hin _]. apply (in_entries_inv pfx V i p0 v0 l r) in Hin. cbn [fst snd] in Hin. destruct Hin as [[H _]|Hin]; [exact H|].
      exfalso. pose proof (wf_node_inv _ _ _ _ _ _ _ _ _ _ Hwf) as [_ [_ [Hl Hr]]].
      destruct Hin as [Hin|Hin];
        [pose proof (entries_under _ _ _ _ _ _ _ Hl Hin) as Hu | pose proof (entries_under _ _ _ _ _ _ _ Hr Hin) as Hu];
        exact (below_neq _ _ _ Hu eq_refl).
  - split; [discriminate | intros [_ H]; discriminate].
Qed.

(** a virtual view stores nothing at its own prefix *)
Lemma v_virtual_no_own v e :
  view_wf v -> v_is_virtual v = true -> In e (v_entries v) -> key e <> bits (v_prefix v).
Proof.
  intros [Hn [[b Hwf] Hv]] Hvirt Hin. destruct v as [t|p t]; [discriminate|].
  cbn [Views.v_prefix v_entries v_tree] in *. destruct t as [|i p0 v0 l r]; [discriminate|].
  destruct Hv as [_ [Hcov Hne]]. cbn [Trie.tpfx] in *. intros E.
  pose proof (entries_under _ _ _ _ _ _ _ (wf_self _ _ _ _ _ _ _ _ _ _ Hwf) Hin) as Hu.
  apply Hne. apply prefix_of_antisym; [exact Hcov|]. unfold TrieWf.key in E. rewrite <- E. exact Hu.
Qed.

(* ---------------------------------------------------------------------------------------- *)
(** * left / right *)

Definition side_prefix (v : view) (s : bool) : list bool := bits (v_prefix v) ++ [s].

Lemma virt_side p t : ok p -> is_node t = true -> (exists b, wf_under b t) ->
  prefix_of (bits p) (bits (tpfx t)) -> bits p <> bits (tpfx t) ->
  prefix_of (bits p ++ [to_right p (tpfx t)]) (bits (tpfx t)).
Proof.
  intros Hp Hn [b Hwf] Hcov Hne. destruct t as [|i p0 v0 l r]; [discriminate|]. cbn [Trie.tpfx] in *.
  pose proof (wf_node_inv _ _ _ _ _ _ _ _ _ _ Hwf) as [Hp0 _].
  rewrite L_to_right_spec by assumption. apply proper_ext; [exact Hcov|]. intros E. apply Hne. symmetry. exact E.
Qed.

(** [left()] ([s = false]) / [right()] ([s = true]) address exactly the entries of the view whose
    next bit after the view's prefix is [s] *)
Theorem v_side_spec (v : view) (s : bool) :
  view_wf v ->
  match (if s then v_right v else v_left v) with
  | Some v' =>
    view_wf v' /\ v_is_virtual v' = false /\
    forall e, In e (v_entries v') <-> In e (v_entries v) /\ prefix_of (side_prefix v s) (key e)
  | None => forall e, In e (v_entries v) -> ~ prefix_of (side_prefix v s) (key e)
  end.
Proof.
  intros [Hn [[b Hwf] Hv]]. unfold side_prefix, v_entries.
  destruct v as [t|p t]; cbn [v_tree Views.v_prefix] in *.
  - (* real node *)
    destruct t as [|i p0 v0 l r]; [discriminate|]. cbn [Trie.tpfx].
    pose proof (wf_node_inv _ _ _ _ _ _ _ _ _ _ Hwf) as [Hp [_ [Hl Hr]]].
    assert (Hgen : forall c o sc, wf_under (bits p0 ++ [sc]) c -> wf_under (bits p0 ++ [negb sc]) o ->
              (forall e, In e (entries (Node i p0 v0 l r)) -> (v0 = Some (snd e) /\ fst e = p0) \/ In e (entries c) \/ In e (entries o)) ->
              (forall e, In e (entries c) -> In e (entries (Node i p0 v0 l r))) ->
              match (match c with Leaf => @None view | Node ci cp cv cl cr => Some (VNode (Node ci cp cv cl cr)) end) with
              | Some v' => view_wf v' /\ v_is_virtual v' = false /\
                           forall e, In e (entries (v_tree v')) <-> In e (entries (Node i p0 v0 l r)) /\ prefix_of (bits p0 ++ [sc]) (key e)
              | None => forall e, In e (entries (Node i p0 v0 l r)) -> ~ prefix_of (bits p0 ++ [sc]) (key e)
              end).
    { intros c o sc Hc Ho Hsplit Hsub.
      assert (Hexcl : forall e, In e (entries (Node i p0 v0 l r)) -> prefix_of (bits p0 ++ [sc]) (key e) -> In e (entries c)).
      { intros e Hin Hcv. destruct (Hsplit e Hin) as [[_ H]|[H|H]]; [|exact H|].
        - exfalso. unfold TrieWf.key in Hcv. rewrite H in Hcv. eapply below_neq; [exact Hcv | reflexivity].
        - exfalso. pose proof (entries_under _ _ _ _ _ _ _ Ho H) as Hu.
          destruct sc; cbn in Hu; eapply sides_disjoint; eauto. }
      destruct c as [|ci cp cv cl cr].
      - intros e Hin Hcv. apply (Hexcl e Hin Hcv).
      - split; [split; [reflexivity|]; split; [eexists; exact Hc | exact I]|]. split; [reflexivity|].
        intros e. cbn [v_tree]. split.
        + intros Hin. split; [apply Hsub; exact Hin | apply (entries_under _ _ _ _ _ _ _ Hc Hin)].
        + intros [Hin Hcv]. apply Hexcl; assumption. }
    destruct s; cbn [Views.v_left Views.v_right tleft tright].
    + apply (Hgen r l true); [exact Hr | exact Hl | | intros e; apply in_entries_r].
      intros e Hin. apply in_entries_inv in Hin. tauto.
    + apply (Hgen l r false); [exact Hl | exact Hr | | intros e; apply in_entries_l].
      intros e Hin. apply in_entries_inv in Hin. tauto.
  - (* virtual node: the real node lies on exactly one side *)
    destruct Hv as [Hp [Hcov Hne]].
    pose proof (virt_side p t Hp Hn (ex_intro _ b Hwf) Hcov Hne) as Hside.
    assert (Hall : forall e, In e (entries t) -> prefix_of (bits p ++ [to_right p (tpfx t)]) (key e)).
    { intros e Hin. eapply prefix_of_trans; [exact Hside|]. destruct t as [|i p0 v0 l r]; [contradiction|].
      apply (entries_under _ _ _ _ _ _ _ (wf_self _ _ _ _ _ _ _ _ _ _ Hwf) Hin). }
    destruct s; cbn [Views.v_left Views.v_right]; destruct (to_right p (tpfx t)) eqn:S; cbn [negb].
    + split; [split; [exact Hn|]; split; [exists b; exact Hwf | exact I]|]. split; [reflexivity|].
      intros e. cbn [v_tree]. split; [intros Hin; split; [exact Hin | apply Hall; exact Hin] | tauto].
    + intros e Hin Hcv. eapply sides_disjoint; [apply Hall; exact Hin | exact Hcv].
    + intros e Hin Hcv. eapply sides_disjoint; [exact Hcv | apply Hall; exact Hin].
    + split; [split; [exact Hn|]; split; [exists b; exact Hwf | exact I]|]. split; [reflexivity|].
      intros e. cbn [v_tree]. split; [intros Hin; split; [exact Hin | apply Hall; exact Hin] | tauto].
Qed.

(** the entries of a view are its own entry plus the disjoint union of the two sides *)
Theorem v_entries_split v e :
  view_wf v -> In e (v_entries v) ->
  key e = bits (v_prefix v) \/ prefix_of (side_prefix v false) (key e) \/ prefix_of (side_prefix v true) (key e).
Proof.
  intros Hv Hin. pose proof (v_entries_under v e Hv Hin) as Hu.
  destruct (list_eq_dec bool_dec (key e) (bits (v_prefix v))) as [E|Hne]; [left; exact E|].
  right. pose proof (proper_ext _ _ Hu Hne) as H. unfold side_prefix.
  destruct (nth (length (bits (v_prefix v))) (key e) false); auto.
Qed.

Lemma v_sides_disjoint v k : prefix_of (side_prefix v false) k -> prefix_of (side_prefix v true) k -> False.
Proof. apply sides_disjoint. Qed.

(* ---------------------------------------------------------------------------------------- *)
(** * find_exact *)

Lemma find_exact_walk_spec t : forall b q,
  wf_under b t -> ok q ->
  match find_exact_walk t q with
  | Some v' =>
    exists t', v' = VNode t' /\ view_wf v' /\ bits (tpfx t') = bits q /\
               (exists x, pv t' = Some (tpfx t', x) /\ In (tpfx t', x) (entries t)) /\
               forall e, In e (entries t') -> In e (entries t)
  | None => forall e, In e (entries t) -> key e <> bits q
  end.
Proof.
  induction t as [|i0 p0 v0 l IHl r IHr]; intros b q Hwf Hq; [intros e []|].
  pose proof (wf_node_inv _ _ _ _ _ _ _ _ _ _ Hwf) as [Hp [_ [Hl Hr]]].
  cbn [Views.find_exact_walk].
  destruct (peq p0 q) eqn:E.
  - pose proof (L_peq_true p0 q Hp Hq E) as Hk.
    destruct v0 as [x|]; cbn [is_some is_none negb].
    + exists (Node i0 p0 (Some x) l r). split; [reflexivity|].
      split; [split; [reflexivity|]; split; [exists b; exact Hwf | exact I]|].
      split; [exact Hk|]. split; [exists x; split; [reflexivity | apply in_entries_own]|]. tauto.
    + intros e Hin Hke. apply in_entries_inv in Hin. destruct Hin as [[H _]|[Hin|Hin]]; [discriminate| |].
      * pose proof (entries_under _ _ _ _ _ _ _ Hl Hin) as Hu. eapply below_neq; [exact Hu|]. congruence.
      * pose proof (entries_under _ _ _ _ _ _ _ Hr Hin) as Hu. eapply below_neq; [exact Hu|]. congruence.
  - (* not reached *)
    assert (Hown : forall e, (v0 = Some (snd e) /\ fst e = p0) -> key e <> bits q).
    { intros e [_ H] Hk. unfold TrieWf.key in Hk. rewrite H in Hk. exact (L_peq_false p0 q Hp Hq E Hk). }
    assert (Hgo : forall c o s, wf_under (bits p0 ++ [s]) c -> s = to_right p0 q ->
              (forall e, In e (entries o) -> prefix_of (bits p0 ++ [negb s]) (key e)) ->
              (forall e, In e (entries (Node i0 p0 v0 l r)) -> (v0 = Some (snd e) /\ fst e = p0) \/ In e (entries c) \/ In e (entries o)) ->
              (forall e, In e (entries c) -> In e (entries (Node i0 p0 v0 l r))) ->
              (forall b' q', wf_under b' c -> ok q' ->
                 match find_exact_walk c q' with
                 | Some v' => exists t', v' = VNode t' /\ view_wf v' /\ bits (tpfx t') = bits q' /\
                                (exists x, pv t' = Some (tpfx t', x) /\ In (tpfx t', x) (entries c)) /\
                                forall e, In e (entries t') -> In e (entries c)
                 | None => forall e, In e (entries c) -> key e <> bits q'
                 end) ->
              match (match c with
                     | Node _ cp _ _ _ => if contains cp q then find_exact_walk c q else None
                     | Leaf => None end) with
              | Some v' => exists t', v' = VNode t' /\ view_wf v' /\ bits (tpfx t') = bits q /\
                             (exists x, pv t' = Some (tpfx t', x) /\ In (tpfx t', x) (entries (Node i0 p0 v0 l r))) /\
                             forall e, In e (entries t') -> In e (entries (Node i0 p0 v0 l r))
              | None => forall e, In e (entries (Node i0 p0 v0 l r)) -> key e <> bits q
              end).
    { intros c o s Hwc Hs Ho Hsplit Hsub IH.
      (* entries on the other side or with a key not under the query's side cannot match *)
      assert (Hoth : forall e, In e (entries o) -> key e <> bits q).
      { intros e Hin Hk. specialize (Ho e Hin). rewrite Hk in Ho.
        destruct (prefix_of_comparable (bits p0) (bits q) (bits q)) as [Hc|Hc]; [eapply below_prefix; exact Ho | apply prefix_of_refl | |].
        - pose proof (descent_side pfx peq contains is_bit_set plen lcp pzero mcmp bits ok LAWS p0 q Hp Hq Hc E) as Hd.
          rewrite <- Hs in Hd. destruct s; cbn in Ho; eapply sides_disjoint; eauto.
        - eapply below_not_above; [exact Ho | exact Hc]. }
      assert (Hnone : (forall e, In e (entries c) -> key e <> bits q) ->
                      forall e, In e (entries (Node i0 p0 v0 l r)) -> key e <> bits q).
      { intros Hc e Hin. destruct (Hsplit e Hin) as [H|[H|H]]; [apply Hown; exact H | apply Hc; exact H | apply Hoth; exact H]. }
      destruct c as [|ci cp cv cl cr]; [apply Hnone; intros e []|].
      pose proof (wf_node_inv _ _ _ _ _ _ _ _ _ _ Hwc) as [Hcp _].
      destruct (contains cp q) eqn:C.
      - specialize (IH _ q Hwc Hq). destruct (find_exact_walk (Node ci cp cv cl cr) q) as [v'|].
        + destruct IH as [t' [-> [A [B [[x [C1 C2]] D]]]]]. exists t'. split; [reflexivity|]. split; [exact A|]. split; [exact B|].
          split; [exists x; split; [exact C1 | apply Hsub; exact C2]|]. intros e He. apply Hsub. apply D. exact He.
        + apply Hnone. exact IH.
      - apply Hnone. intros e Hin Hk.
        eapply (subtree_no_cover pfx V peq contains is_bit_set plen lcp pzero mcmp bits ok LAWS _ (Node ci cp cv cl cr) q e); eauto.
        rewrite Hk. apply prefix_of_refl. }
    destruct (to_right p0 q) eqn:S.
    + apply (Hgo r l true); [exact Hr | reflexivity | intros e Hin; apply (entries_under _ _ _ _ _ _ _ Hl Hin) | | intros e; apply in_entries_r | intros b' q' Hb' Hq'; apply (IHr b' q' Hb' Hq')].
      intros e Hin. apply in_entries_inv in Hin. tauto.
    + apply (Hgo l r false); [exact Hl | reflexivity | intros e Hin; apply (entries_under _ _ _ _ _ _ _ Hr Hin) | | intros e; apply in_entries_l | intros b' q' Hb' Hq'; apply (IHl b' q' Hb' Hq')].
      intros e Hin. apply in_entries_inv in Hin. tauto.
Qed.

(** [find_exact q]: the view positioned at [q], exactly when [q] is stored in the view *)
Theorem v_find_exact_spec v q :
  view_wf v -> ok q ->
  match v_find_exact v q with
  | Some v' => view_wf v' /\ v_is_virtual v' = false /\ bits (v_prefix v') = bits q /\
               exists x, v_value v' = Some x /\ In (v_prefix v', x) (v_entries v)
  | None => forall e, In e (v_entries v) -> key e <> bits q
  end.
Proof.
  intros [Hn [[b Hwf] Hv]] Hq. unfold Views.v_find_exact, v_entries.
  pose proof (find_exact_walk_spec (v_tree v) b q Hwf Hq) as H.
  destruct (find_exact_walk (v_tree v) q) as [v'|]; [|exact H].
  destruct H as [t' [-> [A [B [[x [C1 C2]] _]]]]]. split; [exact A|]. split; [reflexivity|]. split; [exact B|].
  exists x. cbn [Views.v_value Views.v_prefix]. split; [|exact C2].
  destruct t' as [|i p v0 l r]; [discriminate|]. cbn in C1. destruct v0; inversion C1; reflexivity.
Qed.

(* ---------------------------------------------------------------------------------------- *)
(** * find_lpm *)

Definition vpv (v : view) : option (pfx * V) := v_prefix_value v.

Lemma find_lpm_walk_sim t : forall q best,
  (forall vb, best = Some vb -> exists tb e, vb = VNode tb /\ pv tb = Some e) ->
  match find_lpm_walk t q best with
  | Some v' => (exists t' e, v' = VNode t' /\ pv t' = Some e /\ lpm_walk t q (match best with Some vb => vpv vb | None => None end) = Some e)
  | None => lpm_walk t q (match best with Some vb => vpv vb | None => None end) = None /\ best = None
  end.
Proof.
  induction t as [|i0 p0 v0 l IHl r IHr]; intros q best Hb.
  - cbn. destruct best as [vb|]; [|auto]. destruct (Hb vb eq_refl) as [tb [e [-> He]]].
    exists tb, e. split; [reflexivity|]. split; [exact He|]. cbn. exact He.
  - cbn [Views.find_lpm_walk Trie.lpm_walk].
    set (best1 := if is_some v0 then Some (VNode (Node i0 p0 v0 l r)) else best).
    set (lb := match best with Some vb => vpv vb | None => None end).
    assert (Hb1 : forall vb, best1 = Some vb -> exists tb e, vb = VNode tb /\ pv tb = Some e).
    { subst best1. destruct v0 as [x|]; cbn [is_some is_none negb].
      - intros vb H. inversion H; subst. exists (Node i0 p0 (Some x) l r), (p0, x). split; reflexivity.
      - exact Hb. }
    assert (Hl1 : match best1 with Some vb => vpv vb | None => None end =
                  match v0 with Some x => Some (p0, x) | None => lb end).
    { subst best1 lb. destruct v0; reflexivity. }
    assert (Hstop : match best1 with
                    | Some v' => exists t' e, v' = VNode t' /\ pv t' = Some e /\
                                   match v0 with Some x => Some (p0, x) | None => lb end = Some e
                    | None => match v0 with Some x => Some (p0, x) | None => lb end = None /\ best = None
                    end).
    { rewrite <- Hl1. destruct best1 as [vb|] eqn:Eb.
      - destruct (Hb1 vb eq_refl) as [tb [e [-> He]]]. exists tb, e. split; [reflexivity|]. split; [exact He|]. exact He.
      - split; [reflexivity|]. subst best1. destruct v0; [discriminate | exact Eb]. }
    destruct (peq p0 q); [exact Hstop|].
    destruct (to_right p0 q).
    + destruct r as [|ci cp cv cl cr]; [exact Hstop|]. destruct (contains cp q); [|exact Hstop].
      specialize (IHr q best1 Hb1). rewrite Hl1 in IHr.
      destruct (find_lpm_walk (Node ci cp cv cl cr) q best1) as [v'|]; [exact IHr|].
      destruct IHr as [A B]. split; [exact A|]. subst best1. destruct v0; [discriminate | exact B].
    + destruct l as [|ci cp cv cl cr]; [exact Hstop|]. destruct (contains cp q); [|exact Hstop].
      specialize (IHl q best1 Hb1). rewrite Hl1 in IHl.
      destruct (find_lpm_walk (Node ci cp cv cl cr) q best1) as [v'|]; [exact IHl|].
      destruct IHl as [A B]. split; [exact A|]. subst best1. destruct v0; [discriminate | exact B].
Qed.

(** [find_lpm q]: the view positioned at the longest prefix stored in the view that covers [q];
    [None] when the view stores no prefix covering [q] *)
Theorem v_find_lpm_spec v q :
  view_wf v -> ok q ->
  match v_find_lpm v q with
  | Some v' => exists e, v_is_virtual v' = false /\ v_prefix_value v' = Some e /\
                         is_lpm pfx V bits (v_entries v) q e
  | None => no_cover pfx V bits (v_entries v) q
  end.
Proof.
  intros [Hn [[b Hwf] Hv]] Hq. unfold Views.v_find_lpm, v_entries.
  destruct (v_tree v) as [|i p v0 l r] eqn:Ht; [discriminate|].
  pose proof (wf_node_inv _ _ _ _ _ _ _ _ _ _ Hwf) as [Hp _].
  destruct (contains p q) eqn:C.
  - assert (Hrc : root_covers (Node i p v0 l r) q) by (cbn; apply L_contains_true; assumption).
    pose proof (find_lpm_walk_sim (Node i p v0 l r) q None (fun vb H => ltac:(discriminate))) as Hs.
    pose proof (lpm_walk_spec pfx V peq contains is_bit_set plen lcp pzero mcmp bits ok LAWS _ b q None Hwf Hq Hrc) as Hl.
    destruct (find_lpm_walk (Node i p v0 l r) q None) as [v'|].
    + destruct Hs as [t' [e [-> [He Hw]]]]. exists e. split; [reflexivity|]. split; [exact He|].
      rewrite Hw in Hl. destruct Hl as [[e' [E Hl]]|[_ E]]; [inversion E; subst; exact Hl | discriminate].
    + destruct Hs as [Hw _]. rewrite Hw in Hl. destruct Hl as [[e' [E _]]|[Hnc _]]; [discriminate | exact Hnc].
  - intros e Hin Hcv. eapply (L_contains_false p q); eauto.
    eapply prefix_of_trans; [|exact Hcv].
    apply (entries_under _ _ _ _ _ _ _ (wf_self _ _ _ _ _ _ _ _ _ _ Hwf) Hin).
Qed.

End VT.
