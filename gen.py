#!/usr/bin/env python3
"""Script generator for the correspondence check (see SCRIPT.md).

Every random choice derives from one PRNG seeded with (seed, profile, shard), so a failing
script is reproduced exactly by the same arguments.  The generator keeps its own approximate
picture of what is stored (plain Python dicts keyed by (masked address, length)) only to bias
choices towards stored keys, branching points and edge positions; it never decides a result.
"""
import random
import sys

TYPES = {
    'u8': (8, 'g'), 'u16': (16, 'g'), 'u32': (32, 'g'), 'u64': (64, 'g'), 'u128': (128, 'g'),
    'usize': (64, 'g'),
    'ipv4net': (32, 'i'), 'ipv6net': (128, 'i'),
    'ipv4network': (32, 'g'), 'ipv6network': (128, 'g'),
    'ipv4cidr': (32, 'm'), 'ipv6cidr': (128, 'm'),
    'ipv4inet': (32, 'g'), 'ipv6inet': (128, 'g'),
}
ALL_TYPES = list(TYPES)
MAIN_TYPES = ['u8', 'u8', 'u8', 'u32', 'u128', 'ipv4net', 'ipv6net', 'ipv4cidr', 'ipv4network', 'ipv6inet',
              'u16', 'u64', 'usize', 'ipv6network', 'ipv6cidr', 'ipv4inet']


def mask(w, l):
    return ((1 << w) - 1) ^ ((1 << (w - l)) - 1) if l > 0 else 0


class G:
    def __init__(self, rng, ty, tiny=False, maxlen=None):
        self.r = rng
        self.ty = ty
        self.w, self.fl = TYPES[ty]
        self.tiny = tiny
        # lengths are drawn from a dense low band so that keys collide, cover and branch
        self.band = 3 if tiny else (maxlen or rng.choice([4, 5, 6, 8]))
        # deep mode (20% of the non-tiny scripts): prefix lengths over the whole range 0..w and long
        # chains of nested prefixes (keys are mostly extensions of stored keys by 1..w-l bits)
        self.deep = (not tiny) and rng.random() < 0.2
        self.maps = {'A': {}, 'B': {}, 'T': {}}
        # keys whose node probably still exists without a value (removed with remove_keep_tree /
        # OccupiedEntry::remove / a view's remove): favourite targets of later operations
        self.ghosts = {'A': [], 'B': [], 'T': []}
        self.lines = []
        self.nval = 1

    # ---- prefixes -------------------------------------------------------------------------
    def key(self, addr, l):
        return (addr & mask(self.w, l), l)

    def fmt(self, addr, l, host=True):
        w = self.w
        a = addr & mask(w, l)
        if host and self.fl != 'm' and l < w and self.r.random() < 0.5:
            a |= self.r.getrandbits(w - l)
        return '%x/%d' % (a, l)

    def rand_len(self):
        r = self.r.random()
        if self.tiny:
            return self.r.randint(0, 3)
        if r < 0.04:
            return 0
        if r < 0.08:
            return self.w
        if r < 0.11:
            return self.w - 1
        if r < 0.14:
            return 1
        return self.r.randint(0, self.band)

    def rand_key(self):
        if self.deep:
            ks = [k for m in self.maps.values() for k in m]
            if ks and self.r.random() < 0.65:
                a, l = self.r.choice(ks)
                if l < self.w:
                    ext = self.r.choice([1, 1, 2, 3, self.r.randint(1, self.w - l)])
                    ext = min(ext, self.w - l)
                    m = self.r.random()
                    e = 0 if m < 0.3 else ((1 << ext) - 1 if m < 0.5 else self.r.getrandbits(ext))
                    return self.key(a | (e << (self.w - l - ext)), l + ext)
            l = self.r.randint(0, self.w)
            hi = min(l, 3)
            a = (self.r.getrandbits(hi) << (self.w - hi)) if hi else 0
            if l > hi:
                a |= self.r.getrandbits(l - hi) << (self.w - l)
            return self.key(a, l)
        l = self.rand_len()
        if l > self.band and l < self.w - 1:
            l = self.band
        # addresses: few distinct leading bits so that prefixes nest
        a = 0
        hi = min(l, self.band)
        bits = self.r.getrandbits(hi) if hi else 0
        a = bits << (self.w - hi) if hi else 0
        if l > hi:
            # long prefixes: extend a short one with zeros or ones or noise
            m = self.r.random()
            ext = l - hi
            if m < 0.4:
                e = 0
            elif m < 0.7:
                e = (1 << ext) - 1
            else:
                e = self.r.getrandbits(ext)
            a |= e << (self.w - l)
        return self.key(a, l)

    def stored(self, X):
        return list(self.maps[X].keys())

    def pick(self, X, p_stored=0.55, p_edge=0.2):
        """a key biased towards stored keys / branching points / edge positions of map X"""
        ks = self.stored(X)
        r = self.r.random()
        gh = self.ghosts.get(X)
        if gh and self.r.random() < 0.12:
            return self.r.choice(gh)
        if ks and r < p_stored:
            return self.r.choice(ks)
        if ks and r < p_stored + p_edge:
            a, l = self.r.choice(ks)
            m = self.r.random()
            if m < 0.35 and l > 0:            # strictly shorter: an ancestor / edge position
                l2 = self.r.randint(0, l - 1)
                return self.key(a, l2)
            if m < 0.6 and len(ks) > 1:        # branching point of two stored keys
                b, lb = self.r.choice(ks)
                x = (a ^ b) >> (self.w - min(l, lb)) if min(l, lb) else 0
                common = min(l, lb) - x.bit_length()
                return self.key(a, common)
            if l < self.w:                     # extension
                l2 = min(self.w, l + self.r.randint(1, 3))
                ext = self.r.getrandbits(l2 - l)
                return self.key(a | (ext << (self.w - l2)), l2)
        return self.rand_key()

    def p(self, k, host=True):
        return self.fmt(k[0], k[1], host)

    def val(self):
        if getattr(self, 'randval', False):
            return self.r.randint(0, 99)
        self.nval += 1
        return self.nval

    # ---- emit -----------------------------------------------------------------------------
    def emit(self, s):
        self.lines.append(s)

    def fn(self):
        return self.r.choice(['+1', '+7', '=100', '=1000', '=50'])

    def pred(self, X):
        r = self.r.random()
        if r < 0.15:
            return 'even', lambda k, v: None
        if r < 0.3:
            return 'odd', lambda k, v: None
        if r < 0.45:
            n = self.r.randint(0, self.band)
            return 'len<=%d' % n, lambda k, v: k[1] <= n
        if r < 0.55:
            n = self.r.randint(0, self.band)
            return 'len>%d' % n, lambda k, v: k[1] > n
        if r < 0.7:
            i = self.r.randint(0, self.band)
            neg = self.r.random() < 0.5
            def f(k, v, i=i, neg=neg):
                b = i < k[1] and i < self.w and ((k[0] >> (self.w - 1 - i)) & 1) == 1
                return (not b) if neg else b
            return ('nbit%d' if neg else 'bit%d') % i, f
        if r < 0.9:
            c = self.pick(X)
            neg = self.r.random() < 0.5
            def f(k, v, c=c, neg=neg):
                cov = c[1] <= k[1] and (k[0] & mask(self.w, c[1])) == c[0]
                return (not cov) if neg else cov
            return ('ncov:%s' if neg else 'cov:%s') % self.p(c), f
        if r < 0.95:
            return 'all', lambda k, v: True
        return 'none', lambda k, v: False

    # ---- mutators -------------------------------------------------------------------------
    def op_insert(self, X):
        k = self.pick(X, 0.25, 0.25)
        v = self.val()
        self.emit('ins %s %s %d' % (X, self.p(k), v))
        self.maps[X][k] = v

    def op_remove(self, X, kind='rem'):
        k = self.pick(X, 0.7, 0.15)
        self.emit('%s %s %s' % (kind, X, self.p(k)))
        if kind == 'remk' and k in self.maps[X]:
            self.ghosts[X].append(k)
        self.maps[X].pop(k, None)

    def op_remc(self, X):
        k = self.pick(X, 0.4, 0.4)
        if k[1] == 0 and self.r.random() < 0.7:
            k = self.pick(X, 0.4, 0.4)
        self.emit('remc %s %s' % (X, self.p(k)))
        m = self.maps[X]
        for q in list(m):
            if k[1] <= q[1] and (q[0] & mask(self.w, k[1])) == k[0]:
                del m[q]

    def op_retain(self, X, panic=False):
        name, f = self.pred(X)
        m = self.maps[X]
        k = '-'
        if panic and m:
            k = str(self.r.randint(0, len(m)))
        self.emit('retain %s %s %s' % (X, name, k))
        if k == '-':
            for q in list(m):
                keep = f(q, m[q])
                if keep is False:
                    del m[q]

    def op_clear(self, X):
        self.emit('clear %s' % X)
        self.maps[X].clear()
        self.ghosts[X] = []

    def op_fromlist(self, X):
        """FromIterator from a list that repeats keys (same key with other values and other host bits)"""
        n = self.r.randint(0, 8)
        ks = [self.pick(X, 0.5, 0.2) for _ in range(n)]
        if ks and self.r.random() < 0.8:
            for _ in range(self.r.randint(1, 3)):      # forced duplicates
                ks.insert(self.r.randint(0, len(ks)), self.r.choice(ks))
        items, m = [], {}
        for k in ks:
            items.append('%s=%d' % (self.p(k), self.val()))
            m[k] = 1
        self.emit('fromlist %s %s' % (X, ','.join(items) or '-'))
        self.maps[X] = m

    def op_collect(self, X):
        n = len(self.maps[X]) + 2
        rs = ','.join(str(self.r.randint(0, 50)) for _ in range(self.r.randint(0, n)))
        self.emit('collect %s %s' % (X, rs or '-'))

    def op_entry(self, X, allow_panic=False, allow_reuse=False):
        k = self.pick(X, 0.5, 0.2)
        occ = k in self.maps[X]
        ops = []
        r = self.r
        for _ in range(r.randint(0, 2)):
            ops.append(r.choice(['get', 'key', 'getmut:' + self.fn(), 'and_modify:' + self.fn()]))
        fin = r.random()
        v = self.val()
        wrong = r.random() < 0.05
        if fin < 0.4:
            c = r.choice(['insert:%d' % v, 'or_insert:%d' % v, 'or_insert_with:%d' % v, 'or_default'])
            if allow_panic and r.random() < 0.15:
                c = r.choice(['or_insert_with:panic', 'and_modify:panic'])
            ops.append(c)
            if c.startswith('insert') or (not occ and c != 'and_modify:panic' and c != 'or_insert_with:panic'):
                self.maps[X][k] = v
        elif (occ and not wrong) or (not occ and wrong):
            n = r.randint(1, 3)
            removed = False
            for _ in range(n):
                c = r.choice(['occ.key', 'occ.get', 'occ.getmut:' + self.fn(), 'occ.insert:%d' % v, 'occ.remove'])
                if removed and not allow_reuse:
                    if c != 'occ.key':
                        break
                ops.append(c)
                if c == 'occ.remove':
                    removed = True
                    if k in self.maps[X]:
                        self.ghosts[X].append(k)
                    self.maps[X].pop(k, None)
                if c.startswith('occ.insert'):
                    break
        else:
            ops.append(r.choice(['vac.key']) if r.random() < 0.3 else '')
            c = r.choice(['vac.insert:%d' % v, 'vac.insert_with:%d' % v, 'vac.default'])
            if allow_panic and r.random() < 0.15:
                c = 'vac.insert_with:panic'
            ops.append(c)
            if c != 'vac.insert_with:panic' and not occ:
                self.maps[X][k] = v
        ops = [o for o in ops if o]
        self.emit('entry %s %s %s' % (X, self.p(k), ' '.join(ops)) if ops else 'entry %s %s' % (X, self.p(k)))

    def op_valwrite(self, X):
        r = self.r.random()
        if r < 0.3:
            self.emit('getmut %s %s %s' % (X, self.p(self.pick(X, 0.7)), self.fn()))
        elif r < 0.5:
            self.emit('lpmmut %s %s %s' % (X, self.p(self.pick(X, 0.4, 0.4)), self.fn()))
        elif r < 0.7:
            self.emit('itermut %s %s' % (X, self.fn()))
        elif r < 0.85:
            self.emit('valsmut %s %s' % (X, self.fn()))
        else:
            self.emit('chmut %s %s %s' % (X, self.p(self.pick(X, 0.4, 0.4)), self.fn()))

    def nav(self, X, depth=None, mutable=False):
        r = self.r
        steps = []
        n = depth if depth is not None else r.choice([0, 1, 1, 1, 2, 2, 3])
        for _ in range(n):
            c = r.random()
            if c < 0.3:
                steps.append('at:' + self.p(self.pick(X, 0.4, 0.45)))
            elif c < 0.45:
                steps.append('find:' + self.p(self.pick(X, 0.4, 0.45)))
            elif c < 0.55:
                steps.append('fx:' + self.p(self.pick(X, 0.7, 0.15)))
            elif c < 0.65:
                steps.append('fl:' + self.p(self.pick(X, 0.4, 0.3)))
            elif c < 0.78:
                steps.append('l')
            elif c < 0.9:
                steps.append('r')
            elif c < 0.95:
                steps.append('sl')
            else:
                steps.append('sr')
        return ','.join(steps) if steps else '.'

    def op_viewmut(self, X, counter_ops=True):
        nav = self.nav(X, mutable=True)
        r = self.r.random()
        if counter_ops and r < 0.2:
            act = 'set:%d' % self.val()
        elif counter_ops and r < 0.4:
            act = 'remove'
        elif r < 0.5:
            act = 'vmut:' + self.fn()
        elif r < 0.6:
            act = 'pvmut:' + self.fn()
        elif r < 0.7:
            act = 'itermut:' + self.fn()
        elif r < 0.8:
            act = 'intoiter:' + self.fn()
        elif r < 0.9:
            act = 'valsmut:' + self.fn()
        elif r < 0.95:
            act = 'info'
        else:
            act = 'ro'
        self.emit('viewmut %s %s %s' % (X, nav, act))

    def mutate(self, X, alphabet='full', n=1):
        """one random mutator from the given alphabet"""
        r = self.r.random()
        if alphabet == 'canon':      # insert / entry insertions / collect / remove / retain / clear
            if r < 0.45:
                self.op_insert(X)
            elif r < 0.55:
                self.op_entry_insert_only(X)
            elif r < 0.8:
                self.op_remove(X)
            elif r < 0.92:
                self.op_retain(X)
            elif r < 0.96:
                self.op_collect(X)
            elif r < 0.98:
                self.op_fromlist(X)
            else:
                self.op_clear(X)
            return
        if r < 0.34:
            self.op_insert(X)
        elif r < 0.5:
            self.op_remove(X)
        elif r < 0.58:
            self.op_remove(X, 'remk')
        elif r < 0.64:
            self.op_remc(X)
        elif r < 0.71:
            self.op_retain(X)
        elif r < 0.73:
            self.op_clear(X)
        elif r < 0.76:
            self.op_collect(X)
        elif r < 0.86:
            self.op_entry(X)
        elif r < 0.92:
            self.op_valwrite(X)
        elif r < 0.93:
            self.emit('clone %s' % X)
        elif r < 0.945:
            self.op_fromlist(X)
        else:
            self.op_viewmut(X, counter_ops=(alphabet == 'full'))

    def op_entry_insert_only(self, X):
        k = self.pick(X, 0.4, 0.3)
        v = self.val()
        c = self.r.choice(['insert:%d' % v, 'or_insert:%d' % v, 'or_insert_with:%d' % v, 'or_default'])
        self.emit('entry %s %s %s' % (X, self.p(k), c))
        if c.startswith('insert') or k not in self.maps[X]:
            self.maps[X][k] = v

    def build(self, X, n, alphabet='full'):
        for _ in range(n):
            self.mutate(X, alphabet)

    def universe(self):
        """all keys of the tiny universe (w=8, len<=3), plus the full-length and one deeper key"""
        ks = [(0, 0)]
        for l in range(1, 4):
            for a in range(1 << l):
                ks.append((a << (self.w - l), l))
        return ks

    def queries(self, X, n):
        if self.tiny:
            return self.universe()
        qs = []
        for _ in range(n):
            qs.append(self.pick(X, 0.35, 0.4))
        return qs


# ---------------------------------------------------------------------------------------------
# profiles: one per family of observables

def prof_hist(g, steps, obs_every=True, alphabet='full', q=True, extra=()):
    """history of mutators on A (and a few on B) with observers after every step"""
    for _ in range(steps):
        g.mutate('A', alphabet)
        if obs_every:
            g.emit('obs A')
        for e in extra:
            g.emit(e)
        if q and (g.tiny or g.r.random() < 0.5):
            for k in g.queries('A', 3):
                g.emit('q A %s' % g.p(k))


def prof_c01(g):
    prof_hist(g, g.r.randint(5, 30) if not g.tiny else g.r.randint(3, 12))
    # the set twin
    for _ in range(g.r.randint(0, 8)):
        set_step(g)
    g.emit('sobs')


def set_step(g):
    r = g.r.random()
    k = g.pick('T', 0.5, 0.2)
    if r < 0.45:
        g.emit('sins %s' % g.p(k))
        g.maps['T'][k] = 0
    elif r < 0.6:
        g.emit('srem %s' % g.p(k))
        g.maps['T'].pop(k, None)
    elif r < 0.68:
        g.emit('sremk %s' % g.p(k))
        g.maps['T'].pop(k, None)
    elif r < 0.74:
        g.emit('sremc %s' % g.p(k))
        m = g.maps['T']
        for q in list(m):
            if k[1] <= q[1] and (q[0] & mask(g.w, k[1])) == k[0]:
                del m[q]
    elif r < 0.8:
        name = 'even'
        while name in ('even', 'odd'):
            name, f = g.pred('T')
        g.emit('sretain %s' % name)
        m = g.maps['T']
        for q in list(m):
            if f(q, 0) is False:
                del m[q]
    elif r < 0.8125:
        ks = [g.pick('T', 0.5, 0.2) for _ in range(g.r.randint(0, 6))]
        if ks:
            ks.insert(g.r.randint(0, len(ks)), g.r.choice(ks))
        g.emit('sfromlist %s' % (','.join(g.p(k) for k in ks) or '-'))
        g.maps['T'] = {k: 0 for k in ks}
    elif r < 0.82:
        g.emit('sclear')
        g.maps['T'].clear()
    elif r < 0.86:
        g.emit('ssave')
    elif r < 0.9:
        g.emit('seq')
    else:
        g.emit('sq %s' % g.p(g.pick('T', 0.4, 0.4)))
    g.emit('sobs')
    if g.r.random() < 0.4:
        g.emit('sq %s' % g.p(g.pick('T', 0.4, 0.4)))
    # the structure of the set's trie and views on the set (PrefixSet has its own wrappers around
    # remove / remove_keep_tree / remove_children / retain / view_at)
    r2 = g.r.random()
    if r2 < 0.35:
        g.emit('sshape')
    if r2 < 0.2 or r2 > 0.75:
        g.emit('sviewat %s' % g.p(g.pick('T', 0.3, 0.5)))


def prof_queries(g):
    """shapes with leftovers, then many lookups (C02, C09, C10-children, C11-view_at)"""
    g.build('A', g.r.randint(3, 25))
    # force value-less leftovers on paths
    for _ in range(g.r.randint(0, 4)):
        g.op_remove('A', g.r.choice(['remk', 'remk', 'rem']))
    if g.r.random() < 0.3:
        g.op_viewmut('A')
    if g.r.random() < 0.5:
        g.emit('ins A 0/0 %d' % g.val())
        g.maps['A'][(0, 0)] = 1
    g.emit('obs A')
    g.emit('shape A')
    for k in g.queries('A', 12):
        t = g.p(k)
        g.emit('q A %s' % t)
        # get_lpm_mut is a separate loop in the code: same query, write nothing
        g.emit('lpmmut A %s +0' % t)
    # the set twin
    for _ in range(g.r.randint(0, 6)):
        set_step(g)
    for k in g.queries('T', 3)[:6]:
        g.emit('sq %s' % g.p(k))


def prof_iters(g):
    g.build('A', g.r.randint(0, 25))
    g.emit('obs A')
    g.emit('shape A')
    g.emit('iters A')
    g.emit('itermut A +0')
    g.emit('valsmut A +0')
    for _ in range(g.r.randint(0, 5)):
        set_step(g)
    g.emit('sobs')


def prof_count(g):
    # every step is followed by obs (len, is_empty, iter); clone / clone_from / collect in between
    for _ in range(g.r.randint(4, 30)):
        g.mutate('A', 'full')
        g.emit('obs A')
        r = g.r.random()
        if r < 0.06:
            g.emit('save A')
        elif r < 0.14:
            g.emit('clone A')
            g.emit('obs A')
    for _ in range(g.r.randint(0, 5)):
        set_step(g)


def prof_count_nov(g):
    """C04 outside the known class: no TrieViewMut::remove/set, no OccupiedEntry reuse"""
    for _ in range(g.r.randint(4, 30)):
        g.mutate('A', 'noview')
        g.emit('obs A')


def two_operands(g):
    g.build('A', g.r.randint(1, 16))
    # B shares structure with A
    for k, v in list(g.maps['A'].items()):
        if g.r.random() < 0.45:
            g.emit('ins B %s %d' % (g.p(k), g.val()))
            g.maps['B'][k] = 1
    g.build('B', g.r.randint(0, 10))
    g.emit('obs A')
    g.emit('obs B')
    g.emit('shape A')
    g.emit('shape B')


def rel_navs(g, X, Y):
    """two navigations whose roots are equal / nested / disjoint / arbitrary"""
    r = g.r.random()
    if r < 0.25:
        return '.', '.'
    if r < 0.45:
        k = g.pick(X, 0.4, 0.45)
        return 'at:' + g.p(k), 'at:' + g.p(k)
    if r < 0.65:
        k = g.pick(X, 0.4, 0.45)
        a, l = k
        if l < g.w:
            l2 = min(g.w, l + g.r.randint(1, 2))
            k2 = g.key(a | (g.r.getrandbits(l2 - l) << (g.w - l2)), l2)
        else:
            k2 = k
        n1, n2 = 'at:' + g.p(k), 'at:' + g.p(k2)
        return (n1, n2) if g.r.random() < 0.5 else (n2, n1)
    return g.nav(X), g.nav(Y)


def prof_setops(g):
    two_operands(g)
    ops = ['union', 'inter', 'diff', 'cdiff']
    for _ in range(g.r.randint(4, 10)):
        xy = g.r.choice(['AB', 'AB', 'AB', 'BA', 'AA', 'BB'])
        n1, n2 = rel_navs(g, xy[0], xy[1])
        for op in ops:
            g.emit('%s %s %s %s' % (op, xy, n1, n2))
    # set views
    if g.r.random() < 0.3:
        for _ in range(g.r.randint(1, 6)):
            set_step(g)
        g.emit('sunion %s %s' % (g.nav('T'), g.nav('A')))


def prof_setops_mut(g):
    two_operands(g)
    for _ in range(g.r.randint(2, 6)):
        xy = g.r.choice(['AB', 'BA'])
        n1, n2 = rel_navs(g, xy[0], xy[1])
        ro = {'umut': 'union', 'imut': 'inter', 'dmut': 'diff', 'cdmut': 'cdiff'}
        op = g.r.choice(list(ro))
        g.emit('%s %s %s %s' % (ro[op], xy, n1, n2))
        if op in ('umut', 'imut'):
            g.emit('%s %s %s %s %s %s' % (op, xy, n1, n2, g.fn(), g.fn()))
        else:
            g.emit('%s %s %s %s %s' % (op, xy, n1, n2, g.fn()))
        g.emit('obs A')
        g.emit('obs B')
        g.emit('shape A')
        g.emit('shape B')
    for _ in range(g.r.randint(1, 3)):
        X = g.r.choice(['A', 'B'])
        nav = g.nav(X, depth=g.r.choice([0, 0, 1, 2]))
        op = g.r.choice(['umuts', 'imuts', 'dmuts', 'cdmuts'])
        if op in ('umuts', 'imuts'):
            g.emit('%s %s %s %s %s' % (op, X, nav, g.fn(), g.fn()))
        else:
            g.emit('%s %s %s %s' % (op, X, nav, g.fn()))
        g.emit('obs %s' % X)
        g.emit('shape %s' % X)


def prof_bulk(g):
    """children / remove_children / retain (C10)"""
    g.build('A', g.r.randint(3, 25))
    g.emit('obs A')
    for _ in range(g.r.randint(2, 8)):
        r = g.r.random()
        if r < 0.35:
            g.op_remc('A')
        elif r < 0.7:
            g.op_retain('A')
        elif r < 0.8:
            g.emit('chmut A %s %s' % (g.p(g.pick('A', 0.4, 0.4)), g.fn()))
        else:
            g.op_insert('A')
        g.emit('obs A')
        g.emit('shape A')
        for k in g.queries('A', 2)[:8]:
            g.emit('q A %s' % g.p(k))
    for _ in range(g.r.randint(0, 6)):
        set_step(g)


def prof_retain(g):
    """C10: retain with (pseudo-)random subsets on dense small tries, followed by re-insertion"""
    g.band = g.r.choice([3, 3, 4])
    g.randval = True
    n = g.r.randint(3, 14)
    for _ in range(n):
        k = g.rand_key() if g.r.random() < 0.8 else g.pick('A', 0.2, 0.6)
        g.emit('ins A %s %d' % (g.p(k), g.val()))
        g.maps['A'][k] = 1
    for _ in range(g.r.randint(0, 2)):
        g.op_remove('A', g.r.choice(['remk', 'rem']))
    for _ in range(g.r.randint(1, 3)):
        g.emit('obs A')
        r = g.r.random()
        if r < 0.55:
            name = g.r.choice(['even', 'odd'])
        else:
            name, _ = g.pred('A')
        g.emit('retain A %s -' % name)
        g.emit('obs A')
        g.emit('shape A')
        g.emit('arena A')
        for _ in range(g.r.randint(2, 5)):
            k = g.rand_key()
            g.emit('ins A %s %d' % (g.p(k), g.val()))
            g.emit('obs A')
        for k in g.queries('A', 3)[:6]:
            g.emit('q A %s' % g.p(k))
    # the set twin on the same kind of shapes
    for _ in range(g.r.randint(0, 8)):
        k = g.rand_key()
        g.emit('sins %s' % g.p(k))
    if g.r.random() < 0.5:
        name = 'even'
        while name in ('even', 'odd'):
            name, _ = g.pred('T')
        g.emit('sretain %s' % name)
        g.emit('sobs')
        g.emit('sins %s' % g.p(g.rand_key()))
        g.emit('sins %s' % g.p(g.rand_key()))
        g.emit('sobs')


def prof_views(g):
    """views: dump + walk over navigations (C11, C12)"""
    g.build('A', g.r.randint(2, 25))
    g.emit('obs A')
    g.emit('shape A')
    for _ in range(g.r.randint(4, 14)):
        nav = g.nav('A')
        g.emit('view A %s dump' % nav)
        if g.r.random() < 0.3:
            g.emit('view A %s walk' % nav)
        if g.r.random() < 0.4:
            g.emit('viewmut A %s info' % nav)
        if g.r.random() < 0.2:
            g.emit('viewmut A %s ro' % nav)
    if g.tiny:
        for k in g.universe():
            g.emit('q A %s' % g.p(k))
    # views on a PrefixSet (AsView / AsViewMut for sets)
    for _ in range(g.r.randint(0, 7)):
        set_step(g)
    if g.maps['T'] or g.r.random() < 0.3:
        g.emit('sshape')
        for _ in range(g.r.randint(1, 5)):
            g.emit('sviewat %s' % g.p(g.pick('T', 0.3, 0.5)))


def prof_find(g):
    """find / find_exact / find_lpm from sub-views with queries inside, covering, between, disjoint"""
    g.build('A', g.r.randint(2, 25))
    g.emit('obs A')
    g.emit('shape A')
    for _ in range(g.r.randint(4, 12)):
        base = 'at:' + g.p(g.pick('A', 0.45, 0.45)) if g.r.random() < 0.8 else g.nav('A')
        q = g.pick('A', 0.35, 0.45)
        step = g.r.choice(['find:', 'fx:', 'fl:', 'at:']) + g.p(q)
        nav = step if base == '.' else base + ',' + step
        g.emit('view A %s dump' % nav)
        g.emit('viewmut A %s info' % nav)
        if g.r.random() < 0.3:
            g.emit('viewmut A %s ro' % nav)


def prof_muttrav(g):
    """C13/C14: mutable traversals, all references held, distinct writes"""
    g.build('A', g.r.randint(2, 22), 'noview')
    for _ in range(g.r.randint(3, 9)):
        r = g.r.random()
        g.emit('obs A')
        g.emit('shape A')
        if r < 0.15:
            g.emit('iters A')
            g.emit('itermut A %s' % g.fn())
        elif r < 0.25:
            g.emit('valsmut A %s' % g.fn())
        elif r < 0.4:
            k = g.pick('A', 0.4, 0.4)
            g.emit('q A %s' % g.p(k, False))
            g.emit('chmut A %s %s' % (g.p(k, False), g.fn()))
        elif r < 0.5:
            k = g.pick('A', 0.6, 0.2)
            g.emit('q A %s' % g.p(k, False))
            g.emit('getmut A %s %s' % (g.p(k, False), g.fn()))
        elif r < 0.6:
            k = g.pick('A', 0.4, 0.4)
            g.emit('q A %s' % g.p(k, False))
            g.emit('lpmmut A %s %s' % (g.p(k, False), g.fn()))
        else:
            nav = g.nav('A')
            g.emit('view A %s dump' % nav)
            act = g.r.choice(['vmut:', 'pvmut:', 'itermut:', 'intoiter:', 'valsmut:']) + g.fn()
            g.emit('viewmut A %s %s' % (nav, act))
    g.emit('obs A')
    g.emit('shape A')


def prof_excl(g):
    """C14: exclusivity of mutable access.  Histories over the full alphabet (so that leftover nodes,
    reused slots and sub-views exist), with `alias` (addresses of all live mutable references) and
    `par` (workers on the sub-views of a recursive split in parallel threads) in between."""
    g.build('A', g.r.randint(2, 20), 'full')
    for _ in range(g.r.randint(3, 10)):
        r = g.r.random()
        if r < 0.45:
            g.mutate('A', 'full')
        elif r < 0.7:
            g.emit('alias A')
        else:
            g.emit('par A %d' % g.r.choice([0, 1, 1, 2, 2, 3, 4, 6]))
            g.emit('obs A')
        if g.r.random() < 0.3:
            g.emit('shape A')
    g.emit('alias A')
    g.emit('par A %d' % g.r.choice([1, 2, 3]))
    g.emit('obs A')
    g.emit('arena A')


def prof_shape(g):
    """C15: shape after every step"""
    alphabet = 'canon' if g.r.random() < 0.6 else 'full'
    g.emit('# alphabet %s' % alphabet)
    for _ in range(g.r.randint(4, 28)):
        g.mutate('A', alphabet)
        g.emit('shape A')
    g.emit('obs A')
    if alphabet == 'canon':
        # rebuild the surviving entries in two other orders: the shape must not change
        g.emit('collect A %s' % ','.join(str(g.r.randint(0, 60)) for _ in range(12)))
        g.emit('shape A')
        g.emit('collect A %s' % ','.join(str(g.r.randint(0, 60)) for _ in range(12)))
        g.emit('shape A')
    # the set twin: its wrappers must leave the same structure as the map's operations
    for _ in range(g.r.randint(0, 7)):
        set_step(g)
        g.emit('sshape')


def prof_arena(g):
    """C16: arena accounting after every step + churn"""
    for _ in range(g.r.randint(4, 30)):
        g.mutate('A', 'full')
        g.emit('arena A')
        # clone / clone_from: the copies must have a partitioned arena too
        r2 = g.r.random()
        if r2 < 0.05:
            g.emit('save A')
        elif r2 < 0.12:
            g.emit('clone A')
            g.emit('arena A')
    # churn over a small working set
    ws = [g.pick('A', 0.3, 0.3) for _ in range(g.r.randint(2, 8))]
    for _ in range(g.r.randint(5, 40)):
        k = g.r.choice(ws)
        r = g.r.random()
        if r < 0.5:
            g.emit('ins A %s %d' % (g.p(k), g.val()))
        elif r < 0.9:
            g.emit('rem A %s' % g.p(k))
        elif r < 0.95:
            g.emit('remc A %s' % g.p(k))
        else:
            name, _ = g.pred('A')
            g.emit('retain A %s -' % name)
    g.emit('arena A')
    g.emit('obs A')


def prof_arenax(g):
    """C16/C20: the whole arena slot by slot against the arena-level model (Arena.v, Arena2.v).  Only
    operations that model transcribes mutate the map (insert, remove, remove_keep_tree, clear,
    remove_children, retain incl. panicking predicates, get_mut, TrieViewMut::set/remove/value_mut);
    after every one of them the complete arena (length, free list in stack order, counter, and the
    left link / right link / has-value flag of EVERY slot, released ones included) is compared."""
    for _ in range(g.r.randint(6, 40)):
        r = g.r.random()
        if r < 0.36:
            g.op_insert('A')
        elif r < 0.6:
            g.op_remove('A')
        elif r < 0.7:
            g.op_remove('A', 'remk')
        elif r < 0.76:
            g.op_remc('A')
        elif r < 0.84:
            g.op_retain('A', panic=(g.r.random() < 0.3))
        elif r < 0.86:
            g.op_clear('A')
        elif r < 0.9:
            g.emit('getmut A %s %s' % (g.p(g.pick('A', 0.7)), g.fn()))
        else:
            nav = g.nav('A', mutable=True)
            act = g.r.choice(['set:%d' % g.val(), 'remove', 'vmut:' + g.fn(), 'pvmut:' + g.fn(), 'info'])
            g.emit('viewmut A %s %s' % (nav, act))
            g.emit('obs A')   # resynchronise the generator's own bookkeeping is not needed: obs is an observer
            # the generator's map bookkeeping does not follow view writes; forget it
            g.maps['A'] = dict(g.maps['A'])
        g.emit('arenax A')
        if g.r.random() < 0.2:
            g.emit('q A %s' % g.p(g.pick('A', 0.4, 0.4)))
    g.emit('obs A')
    g.emit('arena A')


def prof_churn(g, cycles=2000):
    """C16: long churn over a bounded working set"""
    ws = [g.rand_key() for _ in range(g.r.randint(4, 24))]
    for i in range(cycles):
        k = g.r.choice(ws)
        r = g.r.random()
        if r < 0.5:
            g.emit('ins A %s %d' % (g.p(k), i))
        elif r < 0.93:
            g.emit('rem A %s' % g.p(k))
        elif r < 0.96:
            g.emit('remc A %s' % g.p(k))
        else:
            name, _ = g.pred('A')
            g.emit('retain A %s -' % name)
        if i % 50 == 49:
            g.emit('arena A')
    g.emit('arena A')
    g.emit('obs A')


def prof_hostbits(g):
    """C18: every key with random host bits; all prefix outputs compared bit-exact"""
    prof_hist(g, g.r.randint(5, 25), alphabet='full')
    two = g.r.random() < 0.4
    if two:
        for k in list(g.maps['A'])[:8]:
            if g.r.random() < 0.6:
                g.emit('ins B %s %d' % (g.p(k), g.val()))
        g.emit('union AB . .')
        g.emit('inter AB . .')
        g.emit('diff AB . .')
    g.emit('view A %s dump' % g.nav('A'))
    g.emit('iters A')


def prof_eq(g):
    """C19: equality / clone / round-trips"""
    g.build('A', g.r.randint(0, 15))
    g.emit('save A')
    g.emit('eq A')
    r = g.r.random()
    if r < 0.2:
        pass
    elif r < 0.4:
        # equal contents, different shape
        ks = g.stored('A')
        if ks:
            k = g.r.choice(ks)
            v = g.maps['A'][k]
            g.emit('getmut A %s +0' % g.p(k, False))
            g.emit('remk A %s' % g.p(k, False))
    elif r < 0.6:
        # strict prefix / extension of the entry sequence
        ks = sorted(g.stored('A'))
        if ks and g.r.random() < 0.5:
            g.emit('rem A %s' % g.p(ks[-1], False))
        else:
            g.emit('ins A %x/%d 77' % (((1 << g.w) - 1), g.w))
    elif r < 0.7:
        g.emit('clear A')
    elif r < 0.85:
        ks = g.stored('A')
        if ks:
            g.emit('getmut A %s +1' % g.p(g.r.choice(ks), False))
    else:
        g.build('A', g.r.randint(1, 4))
    g.emit('eq A')
    g.emit('obs A')
    g.emit('clone A')
    g.emit('obs A')
    g.emit('save A')
    g.emit('collect A %s' % ','.join(str(g.r.randint(0, 60)) for _ in range(10)))
    g.emit('eq A')
    g.emit('serde A')
    g.emit('obs A')
    for _ in range(g.r.randint(0, 6)):
        set_step(g)
    g.emit('ssave')
    g.emit('seq')
    set_step(g)
    g.emit('seq')


def prof_chain(g):
    """the DEEPEST possible path: a node at EVERY prefix length 0..w along one address (w+1 nested
    nodes; the bound of C15/C20), built in random order, some nodes turned into value-less leftovers,
    some removed; then every prefix of the address and of a sibling address is queried (get, lpm, spm,
    cover, children), and the mutable and view twins of the lookups are run"""
    w = g.w
    a = g.r.getrandbits(w)
    lens = list(range(0, w + 1))
    if g.r.random() < 0.25:            # sometimes a gap or two
        for _ in range(g.r.randint(1, 2)):
            lens.remove(g.r.choice(lens))
    g.r.shuffle(lens)
    for l in lens:
        k = g.key(a, l)
        g.emit('ins A %s %d' % (g.p(k), g.val()))
        g.maps['A'][k] = 1
    nrem = g.r.choice([0, 0, 1, 2, 3])
    for _ in range(nrem):
        l = g.r.choice([w, w - 1, g.r.randint(0, w), 0, 1])
        k = g.key(a, l)
        g.emit('%s A %s' % (g.r.choice(['remk', 'remk', 'rem']), g.p(k)))
        g.maps['A'].pop(k, None)
    g.emit('obs A')
    g.emit('arena A')
    ql = sorted(set([0, 1, 2, w // 2, w - 2, w - 1, w] + [g.r.randint(0, w) for _ in range(6)]))
    ql = [l for l in ql if 0 <= l <= w]
    for l in ql:
        t = g.p(g.key(a, l))
        g.emit('q A %s' % t)
        g.emit('lpmmut A %s +0' % t)
        g.emit('view A fl:%s dump' % g.p(g.key(a, l), False))
        g.emit('viewmut A fx:%s info' % g.p(g.key(a, l), False))
    # the sibling of the full-width key and of a middle key: the last bit / a middle bit flipped
    for l in (w, max(1, w // 2)):
        b = a ^ (1 << (w - l))
        t = g.p(g.key(b, l))
        g.emit('q A %s' % t)
        g.emit('lpmmut A %s +0' % t)
    g.emit('iters A')
    g.emit('shape A')
    # the same chain as a set
    for l in sorted(lens)[-3:] + sorted(lens)[:2]:
        g.emit('sins %s' % g.p(g.key(a, l)))
    g.emit('sq %s' % g.p(g.key(a, w)))
    g.emit('sobs')


def prof_panic(g):
    """C20: full alphabet incl. handle-level calls, callback panics at every index"""
    for _ in range(g.r.randint(4, 25)):
        r = g.r.random()
        if r < 0.12:
            g.op_retain('A', panic=True)
        elif r < 0.3:
            g.op_entry('A', allow_panic=True)
        else:
            g.mutate('A', 'noview')
        g.emit('obs A')
        if g.r.random() < 0.3:
            g.emit('shape A')
        if g.r.random() < 0.3:
            g.emit('arena A')
        if g.r.random() < 0.3:
            g.emit('q A %s' % g.p(g.pick('A', 0.4, 0.4)))
        # clone / clone_from (into destinations with released slots) and use of the result
        r2 = g.r.random()
        if r2 < 0.08:
            g.emit('save A')
        elif r2 < 0.18:
            g.emit('clone A')
    g.emit('iters A')
    g.emit('view A %s dump' % g.nav('A'))


def prof_known(g):
    """histories inside the known classes (TrieViewMut counter ops, OccupiedEntry reuse)"""
    for _ in range(g.r.randint(4, 20)):
        r = g.r.random()
        if r < 0.25:
            g.op_viewmut('A', counter_ops=True)
        elif r < 0.4:
            g.op_entry('A', allow_reuse=True)
        else:
            g.mutate('A', 'full')
        g.emit('obs A')


def prof_alg(g):
    """C17: prefix algebra lines"""
    w = g.w
    for _ in range(40):
        la = g.r.choice([0, 1, w - 1, w, g.r.randint(0, w), g.r.randint(0, w)])
        lb = g.r.choice([0, 1, w - 1, w, la, g.r.randint(0, w), max(0, la - 1), min(w, la + 1)])
        def addr():
            m = g.r.random()
            if m < 0.15:
                return 0
            if m < 0.3:
                return (1 << w) - 1
            if m < 0.45:
                return 1 << g.r.randint(0, w - 1)
            return g.r.getrandbits(w)
        a = addr()
        m = g.r.random()
        if m < 0.4:
            b = a ^ (1 << g.r.randint(0, w - 1))
        elif m < 0.6:
            b = a
        else:
            b = addr()
        if g.fl == 'm':
            pass
        i = g.r.choice([0, 1, la, lb, w - 1, w, w + 1, 255, g.r.randint(0, 255), min(la, lb), max(0, la - 1)])
        i = max(0, min(255, i))
        g.emit('alg %x/%d %x/%d %d' % (a, la, b, lb, i))


def exh_space(klen, nops):
    """the operation alphabet of the bounded-exhaustive profiles: every mutator of the structural
    alphabet applied to every key of length <= klen of the (u8,u8) universe"""
    keys = [(0, 0)]
    for l in range(1, klen + 1):
        for a in range(1 << l):
            keys.append((a << (8 - l), l))
    ops = []
    for (a, l) in keys:
        p = '%x/%d' % (a, l)
        ops.append('ins A %s %%d' % p)
        ops.append('rem A %s' % p)
        ops.append('remk A %s' % p)
        ops.append('remc A %s' % p)
    ops.append('retain A even -')
    ops.append('retain A len<=1 -')
    return ops, keys


def exh_script(idx, klen, nops):
    """script number idx of the enumeration of ALL op sequences of length nops (mixed radix)"""
    ops, keys = exh_space(klen, nops)
    n = len(ops)
    seq = []
    x = idx
    for _ in range(nops):
        seq.append(ops[x % n])
        x //= n
    lines = []
    v = 1
    for o in seq:
        if '%d' in o:
            o = o % v
            v += 1
        lines.append(o)
        lines.append('obs A')
        lines.append('shape A')
        lines.append('arena A')
    for (a, l) in keys:
        lines.append('q A %x/%d' % (a, l))
    return lines


def exh_size(klen, nops):
    return len(exh_space(klen, nops)[0]) ** nops


EXH = {'exh2': (3, 2), 'exh3': (2, 3), 'exh4': (1, 4)}   # name -> (max key length, sequence length)


# ---- bounded-exhaustive histories over a WIDER alphabet (Entry API and mutable views included) --------
def exv_space():
    keys = [(0, 0)]
    for l in range(1, 3):
        for a in range(1 << l):
            keys.append((a << (8 - l), l))
    ops = []
    for (a, l) in keys:
        p = '%x/%d' % (a, l)
        ops += ['ins A %s %%d' % p, 'rem A %s' % p, 'remk A %s' % p, 'remc A %s' % p,
                'entry A %s or_insert:%%d' % p, 'entry A %s occ.remove' % p, 'entry A %s insert:%%d' % p,
                'viewmut A at:%s set:%%d' % p, 'viewmut A at:%s remove' % p, 'viewmut A at:%s,l remove' % p]
    ops += ['retain A even -', 'retain A len<=1 -', 'clear A', 'collect A 3,1,4,1,5']
    return ops, keys


def exv_script(idx, nops):
    ops, keys = exv_space()
    n = len(ops)
    seq = []
    x = idx
    for _ in range(nops):
        seq.append(ops[x % n])
        x //= n
    lines = []
    v = 1
    for o in seq:
        if '%d' in o:
            o = o % v
            v += 1
        lines += [o, 'obs A', 'shape A', 'arena A']
    lines.append('iters A')
    for (a, l) in keys:
        lines.append('q A %x/%d' % (a, l))
    return lines


EXV = {'exv2': 2, 'exv3': 3}


# ---- bounded-exhaustive set operations: all pairs of small maps x all pairs of view roots -------------
def exs_keys():
    keys = [(0, 0)]
    for l in range(1, 3):
        for a in range(1 << l):
            keys.append((a << (8 - l), l))
    return keys          # 7 keys: 0/0, 0/1, 80/1, 0/2, 40/2, 80/2, c0/2


def exs_subsets(maxn):
    import itertools
    ks = exs_keys()
    subs = []
    for n in range(0, maxn + 1):
        subs += list(itertools.combinations(range(len(ks)), n))
    return subs


def exs_script(idx, maxn):
    """pair number idx of (subset A, subset B); every set operation for every pair of view roots that
    exists (at:p for all 7 keys p, plus the whole maps); one key of A is removed with remove_keep_tree
    first when idx is odd in the high bit, so that leftover nodes occur"""
    ks = exs_keys()
    subs = exs_subsets(maxn)
    n = len(subs)
    a, b, leftover = subs[idx % n], subs[(idx // n) % n], (idx // (n * n)) % 2
    lines = []
    v = 1
    for i in a:
        lines.append('ins A %x/%d %d' % (ks[i][0], ks[i][1], v)); v += 1
    for i in b:
        lines.append('ins B %x/%d %d' % (ks[i][0], ks[i][1], v)); v += 1
    if leftover and a:
        lines.append('remk A %x/%d' % ks[a[0]])
    if leftover and b:
        lines.append('remk B %x/%d' % ks[b[-1]])
    roots = ['.'] + ['at:%x/%d' % k for k in ks[1:]]
    for ra in roots:
        for rb in roots:
            for op in ('union', 'inter', 'diff', 'cdiff'):
                lines.append('%s AB %s %s' % (op, ra, rb))
    # the mutable twins at the whole maps and at two sub-roots
    for ra, rb in (('.', '.'), ('at:0/1', '.'), ('.', 'at:80/1'), ('at:0/2', 'at:0/1')):
        lines.append('umut AB %s %s +0 +0' % (ra, rb))
        lines.append('imut AB %s %s +0 +0' % (ra, rb))
        lines.append('dmut AB %s %s +0' % (ra, rb))
        lines.append('cdmut AB %s %s +0' % (ra, rb))
    return lines


EXS = {'exs2': 2, 'exs3': 3}       # name -> max number of keys per operand


def exs_size(maxn):
    n = len(exs_subsets(maxn))
    return 2 * n * n


# ---- bounded-exhaustive views: all small maps x all navigations of length <= 2 ---------------------
def exw_keys():
    keys = [(0, 0)]
    for l in range(1, 4):
        for a in range(1 << l):
            keys.append((a << (8 - l), l))
    return keys          # the 15 keys of length <= 3


def exw_subsets(maxn):
    import itertools
    n = len(exw_keys())
    subs = []
    for k in range(0, maxn + 1):
        subs += list(itertools.combinations(range(n), k))
    return subs


def exw_size(maxn):
    return 2 * len(exw_subsets(maxn))


def exw_script(idx, maxn):
    """map number idx//2 (a subset of at most maxn of the 15 keys), as built (idx even) or with its
    first key removed by remove_keep_tree (idx odd: a value-less leftover node); every first navigation
    step (at/find_exact/find_lpm for all 15 keys, left, right), and from every base (view_at of the 7
    keys of length <= 2, left, right) every second step; read-only dump and the mutable twin's info"""
    ks = exw_keys()
    subs = exw_subsets(maxn)
    sub, leftover = subs[(idx // 2) % len(subs)], idx % 2
    lines = []
    v = 1
    for i in sub:
        lines.append('ins A %x/%d %d' % (ks[i][0], ks[i][1], v)); v += 1
    if leftover and sub:
        lines.append('remk A %x/%d' % ks[sub[0]])
    lines += ['obs A', 'shape A']
    steps = ['l', 'r']
    for (a, l) in ks:
        p = '%x/%d' % (a, l)
        steps += ['at:' + p, 'fx:' + p, 'fl:' + p]
    bases = ['l', 'r'] + ['at:%x/%d' % k for k in ks[:7]]
    navs = list(steps)
    for b in bases:
        navs += [b + ',' + st for st in steps]
    for nav in navs:
        lines.append('view A %s dump' % nav)
        lines.append('viewmut A %s info' % nav)
    lines.append('viewmut A . ro')
    return lines


EXW = {'exw2': 2, 'exw3': 3}       # name -> max number of keys in the map

PROFILES = {
    'hist': prof_c01, 'queries': prof_queries, 'iters': prof_iters, 'count': prof_count,
    'count_nov': prof_count_nov, 'setops': prof_setops, 'setops_mut': prof_setops_mut,
    'bulk': prof_bulk, 'retain': prof_retain, 'views': prof_views, 'find': prof_find, 'muttrav': prof_muttrav,
    'shape': prof_shape, 'arena': prof_arena, 'arenax': prof_arenax, 'churn': prof_churn, 'hostbits': prof_hostbits,
    'excl': prof_excl, 'eq': prof_eq, 'panic': prof_panic, 'chain': prof_chain, 'known': prof_known, 'alg': prof_alg,
}


def gen_script(profile, seed, idx, types=None, tiny_share=0.35):
    if profile in EXH:
        klen, nops = EXH[profile]
        total = exh_size(klen, nops)
        # enumeration order is a fixed permutation (odd multiplier) so that a prefix of the run is spread
        # over the space; counts >= exh_size enumerate the whole space
        j = (idx * 1000003 + seed) % total if total > 1 else 0
        return '%s-%d-%d' % (profile, seed, idx), 'u8', exh_script(j, klen, nops)
    if profile in EXV:
        total = len(exv_space()[0]) ** EXV[profile]
        j = (idx * 1000003 + seed) % total
        return '%s-%d-%d' % (profile, seed, idx), 'u8', exv_script(j, EXV[profile])
    if profile in EXS:
        total = exs_size(EXS[profile])
        j = (idx * 1000003 + seed) % total
        return '%s-%d-%d' % (profile, seed, idx), 'u8', exs_script(j, EXS[profile])
    if profile in EXW:
        total = exw_size(EXW[profile])
        j = (idx * 1000003 + seed) % total
        return '%s-%d-%d' % (profile, seed, idx), 'u8', exw_script(j, EXW[profile])
    rng = random.Random('%s/%d/%d' % (profile, seed, idx))
    if profile == 'alg':
        ty = ALL_TYPES[idx % len(ALL_TYPES)]
        tiny = False
    else:
        tiny = rng.random() < tiny_share
        ty = 'u8' if tiny else rng.choice(types or MAIN_TYPES)
    g = G(rng, ty, tiny)
    PROFILES[profile](g)
    sid = '%s-%d-%d' % (profile, seed, idx)
    return sid, ty, g.lines


def main():
    import argparse
    ap = argparse.ArgumentParser()
    ap.add_argument('--profile', required=True)
    ap.add_argument('--seed', type=int, default=1)
    ap.add_argument('--start', type=int, default=0)
    ap.add_argument('--count', type=int, default=10)
    ap.add_argument('--out', default='-')
    a = ap.parse_args()
    out = sys.stdout if a.out == '-' else open(a.out, 'w')
    for i in range(a.start, a.start + a.count):
        sid, ty, lines = gen_script(a.profile, a.seed, i)
        out.write('S %s %s\n' % (sid, ty))
        for l in lines:
            out.write(l + '\n')
    if out is not sys.stdout:
        out.close()


if __name__ == '__main__':
    main()
