//! Interpreter of the script language of `/verif/SCRIPT.md`, run against the real `prefix-trie`
//! crate. Usage: `run <script-file>`; one output line per `S` line and per op line.
//!
//! Output discipline (mirrored by the OCaml interpreter): the output line of an op is a sequence
//! of tokens separated by single spaces. A token is appended only after the data it prints has
//! been computed completely, and tokens are computed in the order in which they are printed. A
//! panic therefore leaves a (possibly empty) sequence of complete tokens, to which `PANIC` is
//! appended.

use std::fmt::{Debug, Write as FmtWrite};
use std::hash::Hash;
use std::io::{BufWriter, Write};
use std::panic::{catch_unwind, AssertUnwindSafe};

use num_traits::{NumCast, ToPrimitive};
use prefix_trie::map::{Entry, OccupiedEntry, VacantEntry};
use prefix_trie::trieview::UnionItem;
use prefix_trie::{AsView, AsViewMut, Prefix, PrefixMap, PrefixSet, TrieView, TrieViewMut};
use serde::{de::DeserializeOwned, Deserialize, Serialize};

// ---------------------------------------------------------------------------------------------
// value types
// ---------------------------------------------------------------------------------------------

/// Value type of map `B`: a newtype around `i64`.
#[derive(Clone, Debug, PartialEq, Eq, Default, Serialize, Deserialize)]
struct W(i64);

trait Val: Clone + PartialEq + Default + Debug + Serialize + DeserializeOwned + Send + Sync + 'static {
    fn new(v: i64) -> Self;
    fn get(&self) -> i64;
}

impl Val for i64 {
    #[inline]
    fn new(v: i64) -> Self {
        v
    }
    #[inline]
    fn get(&self) -> i64 {
        *self
    }
}

impl Val for W {
    #[inline]
    fn new(v: i64) -> Self {
        W(v)
    }
    #[inline]
    fn get(&self) -> i64 {
        self.0
    }
}

// ---------------------------------------------------------------------------------------------
// prefix types
// ---------------------------------------------------------------------------------------------

/// Serialize with ciborium and deserialize again; `None` for prefix types without serde support.
trait SerdeRt: Prefix + Sized {
    fn roundtrip<T: Val>(m: &PrefixMap<Self, T>) -> Option<PrefixMap<Self, T>>;
    /// `Some(equal)` after serialising and deserialising a set; `None` without serde support.
    fn roundtrip_set(s: &PrefixSet<Self>) -> Option<bool>;
}

macro_rules! serde_yes {
    ($($t:ty),* $(,)?) => {$(
        impl SerdeRt for $t {
            fn roundtrip<T: Val>(m: &PrefixMap<Self, T>) -> Option<PrefixMap<Self, T>> {
                let mut buf: Vec<u8> = Vec::new();
                ciborium::ser::into_writer(m, &mut buf).unwrap();
                let back: PrefixMap<Self, T> = ciborium::de::from_reader(&buf[..]).unwrap();
                Some(back)
            }
            fn roundtrip_set(s: &PrefixSet<Self>) -> Option<bool> {
                let mut buf: Vec<u8> = Vec::new();
                ciborium::ser::into_writer(s, &mut buf).unwrap();
                let back: PrefixSet<Self> = ciborium::de::from_reader(&buf[..]).unwrap();
                Some(back == *s && back.len() == s.len() && back.iter().eq(s.iter()))
            }
        }
    )*};
}

macro_rules! serde_no {
    ($($t:ty),* $(,)?) => {$(
        impl SerdeRt for $t {
            fn roundtrip<T: Val>(_m: &PrefixMap<Self, T>) -> Option<PrefixMap<Self, T>> {
                None
            }
            fn roundtrip_set(_s: &PrefixSet<Self>) -> Option<bool> {
                None
            }
        }
    )*};
}

serde_yes!(
    (u8, u8),
    (u16, u8),
    (u32, u8),
    (u64, u8),
    (u128, u8),
    (usize, u8),
    ipnet::Ipv4Net,
    ipnet::Ipv6Net,
);
serde_no!(
    ipnetwork::Ipv4Network,
    ipnetwork::Ipv6Network,
    cidr::Ipv4Cidr,
    cidr::Ipv6Cidr,
    cidr::Ipv4Inet,
    cidr::Ipv6Inet,
);

/// Everything the interpreter needs from a prefix type.
trait PT: Prefix + Clone + PartialEq + Eq + Hash + Debug + SerdeRt + Send + Sync + 'static {}
impl<P> PT for P where P: Prefix + Clone + PartialEq + Eq + Hash + Debug + SerdeRt + Send + Sync + 'static {}

// ---------------------------------------------------------------------------------------------
// output helpers
// ---------------------------------------------------------------------------------------------

/// Start a new token.
#[inline]
fn sep(o: &mut String) {
    if !o.is_empty() {
        o.push(' ');
    }
}

#[inline]
fn w_hex<R: ToPrimitive>(o: &mut String, r: R) {
    let _ = write!(o, "{:x}", r.to_u128().unwrap());
}

#[inline]
fn w_p<P: Prefix>(o: &mut String, p: &P) {
    w_hex(o, p.repr());
    let _ = write!(o, "/{}", p.prefix_len());
}

#[inline]
fn w_i(o: &mut String, v: i64) {
    let _ = write!(o, "{}", v);
}

#[inline]
fn w_u(o: &mut String, v: usize) {
    let _ = write!(o, "{}", v);
}

#[inline]
fn w_b(o: &mut String, b: bool) {
    o.push(if b { '1' } else { '0' });
}

#[inline]
fn w_opt(o: &mut String, v: Option<i64>) {
    match v {
        Some(v) => w_i(o, v),
        None => o.push('-'),
    }
}

#[inline]
fn w_pair<P: Prefix>(o: &mut String, p: &P, v: i64) {
    w_p(o, p);
    o.push('=');
    w_i(o, v);
}

#[inline]
fn w_opt_pair<P: Prefix>(o: &mut String, pv: Option<(&P, i64)>) {
    match pv {
        Some((p, v)) => w_pair(o, p, v),
        None => o.push('-'),
    }
}

#[inline]
fn w_opt_p<P: Prefix>(o: &mut String, p: Option<&P>) {
    match p {
        Some(p) => w_p(o, p),
        None => o.push('-'),
    }
}

fn w_list<I: IntoIterator>(o: &mut String, it: I, mut f: impl FnMut(&mut String, I::Item)) {
    o.push('[');
    let mut first = true;
    for x in it {
        if !first {
            o.push(',');
        }
        first = false;
        f(o, x);
    }
    o.push(']');
}

/// `key=<token>` helpers: start a token with a label.
#[inline]
fn key(o: &mut String, k: &str) {
    sep(o);
    o.push_str(k);
}

fn ok(o: &mut String) {
    sep(o);
    o.push_str("ok");
}

/// Collect an iterator; panics (hang guard) if it yields more than `cap` items. `cap` is far
/// above anything a well-formed trie can yield at this point of the script.
fn coll<I: Iterator>(it: I, cap: usize) -> Vec<I::Item> {
    let mut v = Vec::new();
    for x in it {
        if v.len() >= cap {
            panic!("hang guard");
        }
        v.push(x);
    }
    v
}

// ---------------------------------------------------------------------------------------------
// script AST
// ---------------------------------------------------------------------------------------------

#[derive(Clone, Copy, PartialEq, Eq)]
enum Which {
    A,
    B,
}

enum Fun {
    Add(i64),
    Set(i64),
    Panic,
}

impl Fun {
    #[inline]
    fn apply(&self, old: i64, i: usize) -> i64 {
        match self {
            Fun::Add(n) => old.wrapping_add(*n),
            Fun::Set(n) => n.wrapping_add(i as i64),
            Fun::Panic => panic!("closure"),
        }
    }
}

/// `*r = fn(*r)` for the reference with index `i`.
#[inline]
fn write_through<T: Val>(r: &mut T, f: &Fun, i: usize) {
    let old = r.get();
    *r = T::new(f.apply(old, i));
}

enum Pred<P> {
    All,
    None_,
    Even,
    Odd,
    LenLe(i64),
    LenGt(i64),
    Bit(u8),
    NBit(u8),
    Cov(P),
    NCov(P),
}

impl<P: Prefix> Pred<P> {
    fn eval(&self, p: &P, v: i64) -> bool {
        match self {
            Pred::All => true,
            Pred::None_ => false,
            Pred::Even => v % 2 == 0,
            Pred::Odd => v % 2 != 0,
            Pred::LenLe(n) => (p.prefix_len() as i64) <= *n,
            Pred::LenGt(n) => (p.prefix_len() as i64) > *n,
            Pred::Bit(i) => p.is_bit_set(*i),
            Pred::NBit(i) => !p.is_bit_set(*i),
            Pred::Cov(q) => q.contains(p),
            Pred::NCov(q) => !q.contains(p),
        }
    }

    fn uses_value(&self) -> bool {
        matches!(self, Pred::Even | Pred::Odd)
    }
}

enum Step<P> {
    At(P),
    Find(P),
    Fx(P),
    Fl(P),
    L,
    R,
    Sl,
    Sr,
}

type Nav<P> = Vec<Step<P>>;

enum Eop {
    Get,
    GetMut(Fun),
    Key,
    Insert(i64),
    OrInsert(i64),
    OrInsertWith(Option<i64>),
    OrDefault,
    AndModify(Fun),
    OccKey,
    OccGet,
    OccGetMut(Fun),
    OccInsert(i64),
    OccRemove,
    VacKey,
    VacInsert(i64),
    VacInsertWith(Option<i64>),
    VacDefault,
}

enum Act {
    Info,
    Ro,
    Set(i64),
    Remove,
    VMut(Fun),
    PvMut(Fun),
    IterMut(Fun),
    IntoIter(Fun),
    ValsMut(Fun),
}

#[derive(Clone, Copy)]
enum ViewKind {
    Dump,
    Walk,
}

#[derive(Clone, Copy)]
enum SetKind {
    Union,
    Inter,
    Diff,
    CDiff,
}

enum MapOp<P> {
    Ins(P, i64),
    Rem(P),
    RemK(P),
    RemC(P),
    Retain(Pred<P>, Option<usize>),
    Clear,
    Collect(Vec<u64>),
    FromList(Vec<(P, i64)>),
    Clone,
    Save,
    Eq,
    GetMut(P, Fun),
    LpmMut(P, Fun),
    IterMut(Fun),
    ValsMut(Fun),
    ChMut(P, Fun),
    Entry(P, Vec<Eop>),
    View(Nav<P>, ViewKind),
    Shape,
    ViewMut(Nav<P>, Act),
    /// same-map twins on the two halves of a split
    SameMut(SetKind, Nav<P>, Fun, Option<Fun>),
    Obs,
    Q(P),
    Iters,
    Arena,
    Serde,
    /// the whole arena, slot by slot (hook): compared with the arena-level model
    ArenaX,
    /// C14: addresses of all simultaneously live mutable references are pairwise distinct
    Alias,
    /// C14: workers on the sub-views of a recursive split, in parallel threads
    Par(usize),
}

enum Op<P> {
    Map(Which, MapOp<P>),
    Two(SetKind, Which, Which, Nav<P>, Nav<P>),
    TwoMut(SetKind, Which, Which, Nav<P>, Nav<P>, Fun, Option<Fun>),
    SIns(P),
    SRem(P),
    SRemK(P),
    SRemC(P),
    SClear,
    SSave,
    SRetain(Pred<P>),
    SEq,
    SObs,
    SFromList(Vec<P>),
    SShape,
    SViewAt(P),
    SQ(P),
    SUnion(Nav<P>, Nav<P>),
    Alg(P, P, u8),
}

// ---------------------------------------------------------------------------------------------
// parsing
// ---------------------------------------------------------------------------------------------

fn all_digits(s: &str) -> bool {
    !s.is_empty() && s.bytes().all(|b| b.is_ascii_digit())
}

fn p_i64(s: &str) -> Option<i64> {
    let d = s.strip_prefix('-').unwrap_or(s);
    if !all_digits(d) {
        return None;
    }
    s.parse().ok()
}

fn p_u8(s: &str) -> Option<u8> {
    if !all_digits(s) {
        return None;
    }
    s.parse().ok()
}

fn p_u64(s: &str) -> Option<u64> {
    if !all_digits(s) {
        return None;
    }
    s.parse().ok()
}

fn p_usize(s: &str) -> Option<usize> {
    if !all_digits(s) {
        return None;
    }
    s.parse().ok()
}

/// `<hex>/<len>`; `None` if malformed or if the hex value does not fit into `P::R`. The prefix
/// is built with `P::from_repr_len` (which may panic, e.g. for a length beyond the width of an
/// IP type: the caller runs the parser under `catch_unwind`).
fn p_prefix<P: Prefix>(s: &str) -> Option<P> {
    let (h, l) = s.split_once('/')?;
    if h.is_empty() || !h.bytes().all(|b| b.is_ascii_digit() || (b'a'..=b'f').contains(&b)) {
        return None;
    }
    let r = u128::from_str_radix(h, 16).ok()?;
    let len = p_u8(l)?;
    let r: P::R = NumCast::from(r)?;
    Some(P::from_repr_len(r, len))
}

fn p_which(s: &str) -> Option<Which> {
    match s {
        "A" => Some(Which::A),
        "B" => Some(Which::B),
        _ => None,
    }
}

fn p_xy(s: &str) -> Option<(Which, Which)> {
    match s {
        "AA" => Some((Which::A, Which::A)),
        "AB" => Some((Which::A, Which::B)),
        "BA" => Some((Which::B, Which::A)),
        "BB" => Some((Which::B, Which::B)),
        _ => None,
    }
}

fn p_fun(s: &str) -> Option<Fun> {
    if s == "panic" {
        Some(Fun::Panic)
    } else if let Some(n) = s.strip_prefix('+') {
        Some(Fun::Add(p_i64(n)?))
    } else if let Some(n) = s.strip_prefix('=') {
        Some(Fun::Set(p_i64(n)?))
    } else {
        None
    }
}

fn p_pred<P: Prefix>(s: &str) -> Option<Pred<P>> {
    Some(match s {
        "all" => Pred::All,
        "none" => Pred::None_,
        "even" => Pred::Even,
        "odd" => Pred::Odd,
        _ => {
            if let Some(n) = s.strip_prefix("len<=") {
                Pred::LenLe(p_i64(n)?)
            } else if let Some(n) = s.strip_prefix("len>") {
                Pred::LenGt(p_i64(n)?)
            } else if let Some(n) = s.strip_prefix("nbit") {
                Pred::NBit(p_u8(n)?)
            } else if let Some(n) = s.strip_prefix("bit") {
                Pred::Bit(p_u8(n)?)
            } else if let Some(p) = s.strip_prefix("ncov:") {
                Pred::NCov(p_prefix(p)?)
            } else if let Some(p) = s.strip_prefix("cov:") {
                Pred::Cov(p_prefix(p)?)
            } else {
                return None;
            }
        }
    })
}

fn p_nav<P: Prefix>(s: &str) -> Option<Nav<P>> {
    if s == "." {
        return Some(Vec::new());
    }
    let mut nav = Vec::new();
    for part in s.split(',') {
        nav.push(match part {
            "l" => Step::L,
            "r" => Step::R,
            "sl" => Step::Sl,
            "sr" => Step::Sr,
            _ => {
                let (k, p) = part.split_once(':')?;
                let p = p_prefix::<P>(p)?;
                match k {
                    "at" => Step::At(p),
                    "find" => Step::Find(p),
                    "fx" => Step::Fx(p),
                    "fl" => Step::Fl(p),
                    _ => return None,
                }
            }
        });
    }
    Some(nav)
}

/// `<v>` or `panic`
fn p_val_or_panic(s: &str) -> Option<Option<i64>> {
    if s == "panic" {
        Some(None)
    } else {
        Some(Some(p_i64(s)?))
    }
}

fn p_eop(s: &str) -> Option<Eop> {
    let (name, arg) = match s.split_once(':') {
        Some((n, a)) => (n, Some(a)),
        None => (s, None),
    };
    Some(match (name, arg) {
        ("get", None) => Eop::Get,
        ("getmut", Some(a)) => Eop::GetMut(p_fun(a)?),
        ("key", None) => Eop::Key,
        ("insert", Some(a)) => Eop::Insert(p_i64(a)?),
        ("or_insert", Some(a)) => Eop::OrInsert(p_i64(a)?),
        ("or_insert_with", Some(a)) => Eop::OrInsertWith(p_val_or_panic(a)?),
        ("or_default", None) => Eop::OrDefault,
        ("and_modify", Some(a)) => Eop::AndModify(p_fun(a)?),
        ("occ.key", None) => Eop::OccKey,
        ("occ.get", None) => Eop::OccGet,
        ("occ.getmut", Some(a)) => Eop::OccGetMut(p_fun(a)?),
        ("occ.insert", Some(a)) => Eop::OccInsert(p_i64(a)?),
        ("occ.remove", None) => Eop::OccRemove,
        ("vac.key", None) => Eop::VacKey,
        ("vac.insert", Some(a)) => Eop::VacInsert(p_i64(a)?),
        ("vac.insert_with", Some(a)) => Eop::VacInsertWith(p_val_or_panic(a)?),
        ("vac.default", None) => Eop::VacDefault,
        _ => return None,
    })
}

fn p_act(s: &str) -> Option<Act> {
    let (name, arg) = match s.split_once(':') {
        Some((n, a)) => (n, Some(a)),
        None => (s, None),
    };
    Some(match (name, arg) {
        ("info", None) => Act::Info,
        ("ro", None) => Act::Ro,
        ("set", Some(a)) => Act::Set(p_i64(a)?),
        ("remove", None) => Act::Remove,
        ("vmut", Some(a)) => Act::VMut(p_fun(a)?),
        ("pvmut", Some(a)) => Act::PvMut(p_fun(a)?),
        ("itermut", Some(a)) => Act::IterMut(p_fun(a)?),
        ("intoiter", Some(a)) => Act::IntoIter(p_fun(a)?),
        ("valsmut", Some(a)) => Act::ValsMut(p_fun(a)?),
        _ => return None,
    })
}

fn p_collect_list(s: &str) -> Option<Vec<u64>> {
    if s == "-" {
        return Some(Vec::new());
    }
    s.split(',').map(p_u64).collect()
}

/// `p=v,p=v,...` (or `-` for the empty list)
fn p_pair_list<P: Prefix>(s: &str) -> Option<Vec<(P, i64)>> {
    if s == "-" {
        return Some(Vec::new());
    }
    s.split(',')
        .map(|it| {
            let (p, v) = it.split_once('=')?;
            Some((p_prefix(p)?, v.parse::<i64>().ok()?))
        })
        .collect()
}

/// Parse one op line. `None` means "print `?`". All prefixes of the line are constructed here,
/// from left to right.
fn parse_op<P: Prefix>(t: &[&str]) -> Option<Op<P>> {
    let n = t.len();
    let name = *t.first()?;
    let m = |mop: MapOp<P>| -> Option<Op<P>> { Some(Op::Map(p_which(t[1])?, mop)) };
    match (name, n) {
        ("ins", 4) => m(MapOp::Ins(p_prefix(t[2])?, p_i64(t[3])?)),
        ("rem", 3) => m(MapOp::Rem(p_prefix(t[2])?)),
        ("remk", 3) => m(MapOp::RemK(p_prefix(t[2])?)),
        ("remc", 3) => m(MapOp::RemC(p_prefix(t[2])?)),
        ("retain", 4) => {
            let pred = p_pred(t[2])?;
            let k = if t[3] == "-" { None } else { Some(p_usize(t[3])?) };
            m(MapOp::Retain(pred, k))
        }
        ("clear", 2) => m(MapOp::Clear),
        ("collect", 3) => m(MapOp::Collect(p_collect_list(t[2])?)),
        ("fromlist", 3) => m(MapOp::FromList(p_pair_list(t[2])?)),
        ("clone", 2) => m(MapOp::Clone),
        ("save", 2) => m(MapOp::Save),
        ("eq", 2) => m(MapOp::Eq),
        ("getmut", 4) => m(MapOp::GetMut(p_prefix(t[2])?, p_fun(t[3])?)),
        ("lpmmut", 4) => m(MapOp::LpmMut(p_prefix(t[2])?, p_fun(t[3])?)),
        ("itermut", 3) => m(MapOp::IterMut(p_fun(t[2])?)),
        ("valsmut", 3) => m(MapOp::ValsMut(p_fun(t[2])?)),
        ("chmut", 4) => m(MapOp::ChMut(p_prefix(t[2])?, p_fun(t[3])?)),
        ("entry", _) if n >= 3 => {
            let p = p_prefix(t[2])?;
            let eops: Option<Vec<Eop>> = t[3..].iter().map(|s| p_eop(s)).collect();
            m(MapOp::Entry(p, eops?))
        }
        ("view", 4) => {
            let nav = p_nav(t[2])?;
            let kind = match t[3] {
                "dump" => ViewKind::Dump,
                "walk" => ViewKind::Walk,
                _ => return None,
            };
            m(MapOp::View(nav, kind))
        }
        ("shape", 2) => m(MapOp::Shape),
        ("viewmut", 4) => m(MapOp::ViewMut(p_nav(t[2])?, p_act(t[3])?)),
        ("umuts", 5) => m(MapOp::SameMut(
            SetKind::Union,
            p_nav(t[2])?,
            p_fun(t[3])?,
            Some(p_fun(t[4])?),
        )),
        ("imuts", 5) => m(MapOp::SameMut(
            SetKind::Inter,
            p_nav(t[2])?,
            p_fun(t[3])?,
            Some(p_fun(t[4])?),
        )),
        ("dmuts", 4) => m(MapOp::SameMut(SetKind::Diff, p_nav(t[2])?, p_fun(t[3])?, None)),
        ("cdmuts", 4) => m(MapOp::SameMut(SetKind::CDiff, p_nav(t[2])?, p_fun(t[3])?, None)),
        ("obs", 2) => m(MapOp::Obs),
        ("q", 3) => m(MapOp::Q(p_prefix(t[2])?)),
        ("iters", 2) => m(MapOp::Iters),
        ("arena", 2) => m(MapOp::Arena),
        ("serde", 2) => m(MapOp::Serde),
        ("arenax", 2) => m(MapOp::ArenaX),
        ("alias", 2) => m(MapOp::Alias),
        ("par", 3) => m(MapOp::Par(p_usize(t[2])?)),

        ("union", 4) | ("inter", 4) | ("diff", 4) | ("cdiff", 4) => {
            let kind = match name {
                "union" => SetKind::Union,
                "inter" => SetKind::Inter,
                "diff" => SetKind::Diff,
                _ => SetKind::CDiff,
            };
            let (x, y) = p_xy(t[1])?;
            Some(Op::Two(kind, x, y, p_nav(t[2])?, p_nav(t[3])?))
        }
        ("umut", 6) | ("imut", 6) => {
            let kind = if name == "umut" { SetKind::Union } else { SetKind::Inter };
            let (x, y) = p_xy(t[1])?;
            if x == y {
                return None;
            }
            let n1 = p_nav(t[2])?;
            let n2 = p_nav(t[3])?;
            Some(Op::TwoMut(kind, x, y, n1, n2, p_fun(t[4])?, Some(p_fun(t[5])?)))
        }
        ("dmut", 5) | ("cdmut", 5) => {
            let kind = if name == "dmut" { SetKind::Diff } else { SetKind::CDiff };
            let (x, y) = p_xy(t[1])?;
            if x == y {
                return None;
            }
            let n1 = p_nav(t[2])?;
            let n2 = p_nav(t[3])?;
            Some(Op::TwoMut(kind, x, y, n1, n2, p_fun(t[4])?, None))
        }

        ("sins", 2) => Some(Op::SIns(p_prefix(t[1])?)),
        ("srem", 2) => Some(Op::SRem(p_prefix(t[1])?)),
        ("sremk", 2) => Some(Op::SRemK(p_prefix(t[1])?)),
        ("sremc", 2) => Some(Op::SRemC(p_prefix(t[1])?)),
        ("sclear", 1) => Some(Op::SClear),
        ("ssave", 1) => Some(Op::SSave),
        ("sretain", 2) => {
            let pred = p_pred(t[1])?;
            if pred.uses_value() {
                return None;
            }
            Some(Op::SRetain(pred))
        }
        ("seq", 1) => Some(Op::SEq),
        ("sobs", 1) => Some(Op::SObs),
        ("sfromlist", 2) => Some(Op::SFromList(if t[1] == "-" { Vec::new() } else { t[1].split(',').map(p_prefix).collect::<Option<Vec<P>>>()? })),
        ("sshape", 1) => Some(Op::SShape),
        ("sviewat", 2) => Some(Op::SViewAt(p_prefix(t[1])?)),
        ("sq", 2) => Some(Op::SQ(p_prefix(t[1])?)),
        ("sunion", 3) => Some(Op::SUnion(p_nav(t[1])?, p_nav(t[2])?)),
        ("alg", 4) => Some(Op::Alg(p_prefix(t[1])?, p_prefix(t[2])?, p_u8(t[3])?)),
        _ => None,
    }
}

// ---------------------------------------------------------------------------------------------
// navigation
// ---------------------------------------------------------------------------------------------

fn finish_trace(mut t: String) -> String {
    if t.is_empty() {
        t.push('-');
    }
    t
}

/// Read-only navigation. `None` = `NOVIEW`.
fn nav_ro<'a, P: Prefix + Clone, T>(
    start: TrieView<'a, P, T>,
    nav: &[Step<P>],
) -> Option<(TrieView<'a, P, T>, String)> {
    let mut v = start;
    let mut trace = String::new();
    for step in nav {
        match step {
            Step::At(p) => v = v.view_at(p.clone())?,
            Step::Sl => v = v.left()?,
            Step::Sr => v = v.right()?,
            Step::Find(_) | Step::Fx(_) | Step::Fl(_) | Step::L | Step::R => {
                let next = match step {
                    Step::Find(p) => v.find(p.clone()),
                    Step::Fx(p) => v.find_exact(p),
                    Step::Fl(p) => v.find_lpm(p),
                    Step::L => v.left(),
                    _ => v.right(),
                };
                match next {
                    Some(n) => {
                        v = n;
                        trace.push('o');
                    }
                    None => trace.push('e'),
                }
            }
        }
    }
    Some((v, finish_trace(trace)))
}

/// Mutable navigation. `None` = `NOVIEW`.
fn nav_mut<'a, P: Prefix + Clone, T>(
    start: TrieViewMut<'a, P, T>,
    nav: &[Step<P>],
) -> Option<(TrieViewMut<'a, P, T>, String)> {
    let mut v = start;
    let mut trace = String::new();
    for step in nav {
        match step {
            Step::At(p) => v = v.view_mut_at(p.clone())?,
            Step::Sl => v = v.split().0?,
            Step::Sr => v = v.split().1?,
            Step::Find(_) | Step::Fx(_) | Step::Fl(_) | Step::L | Step::R => {
                let next = match step {
                    Step::Find(p) => v.find(p.clone()),
                    Step::Fx(p) => v.find_exact(p),
                    Step::Fl(p) => v.find_lpm(p),
                    Step::L => v.left(),
                    _ => v.right(),
                };
                match next {
                    Ok(n) => {
                        v = n;
                        trace.push('o');
                    }
                    Err(n) => {
                        v = n;
                        trace.push('e');
                    }
                }
            }
        }
    }
    Some((v, finish_trace(trace)))
}

fn noview(o: &mut String) {
    sep(o);
    o.push_str("NOVIEW");
}

// ---------------------------------------------------------------------------------------------
// state
// ---------------------------------------------------------------------------------------------

struct State<P: Prefix> {
    a: PrefixMap<P, i64>,
    a2: PrefixMap<P, i64>,
    b: PrefixMap<P, W>,
    b2: PrefixMap<P, W>,
    t: PrefixSet<P>,
    t2: PrefixSet<P>,
}

impl<P: Prefix> State<P> {
    fn new() -> Self {
        State {
            a: PrefixMap::new(),
            a2: PrefixMap::new(),
            b: PrefixMap::new(),
            b2: PrefixMap::new(),
            t: PrefixSet::new(),
            t2: PrefixSet::new(),
        }
    }
}

// ---------------------------------------------------------------------------------------------
// execution
// ---------------------------------------------------------------------------------------------

fn exec<P: PT>(st: &mut State<P>, op: &Op<P>, o: &mut String, cap: usize) {
    match op {
        Op::Map(Which::A, mop) => map_op(&mut st.a, &mut st.a2, mop, o, cap),
        Op::Map(Which::B, mop) => map_op(&mut st.b, &mut st.b2, mop, o, cap),
        Op::Two(kind, x, y, n1, n2) => match (x, y) {
            (Which::A, Which::A) => two_ro(*kind, &st.a, &st.a, n1, n2, o, cap),
            (Which::A, Which::B) => two_ro(*kind, &st.a, &st.b, n1, n2, o, cap),
            (Which::B, Which::A) => two_ro(*kind, &st.b, &st.a, n1, n2, o, cap),
            (Which::B, Which::B) => two_ro(*kind, &st.b, &st.b, n1, n2, o, cap),
        },
        Op::TwoMut(kind, x, y, n1, n2, f1, f2) => match (x, y) {
            (Which::A, Which::B) => {
                two_mut(*kind, &mut st.a, &mut st.b, n1, n2, f1, f2.as_ref(), o, cap)
            }
            (Which::B, Which::A) => {
                two_mut(*kind, &mut st.b, &mut st.a, n1, n2, f1, f2.as_ref(), o, cap)
            }
            // rejected by the parser
            _ => unreachable!(),
        },
        Op::SIns(p) => {
            let r = st.t.insert(p.clone());
            sep(o);
            w_b(o, r);
        }
        Op::SRem(p) => {
            let r = st.t.remove(p);
            sep(o);
            w_b(o, r);
        }
        Op::SRemK(p) => {
            let r = st.t.remove_keep_tree(p);
            sep(o);
            w_b(o, r);
        }
        Op::SRemC(p) => {
            st.t.remove_children(p);
            ok(o);
        }
        Op::SClear => {
            st.t.clear();
            ok(o);
        }
        Op::SSave => {
            st.t2 = st.t.clone();
            ok(o);
        }
        Op::SRetain(pred) => {
            st.t.retain(|p| pred.eval(p, 0));
            ok(o);
        }
        Op::SEq => {
            let x = st.t == st.t2;
            sep(o);
            w_b(o, x);
            let y = st.t2 == st.t;
            sep(o);
            w_b(o, y);
        }
        Op::SFromList(items) => {
            let built: PrefixSet<P> = items.iter().cloned().collect();
            let mut by_insert: PrefixSet<P> = PrefixSet::new();
            for p in items.iter() {
                by_insert.insert(p.clone());
            }
            if built != by_insert || built.len() != by_insert.len() {
                panic!("set from_iter differs from inserting the items one by one");
            }
            st.t = built;
            ok(o);
        }
        Op::SShape => {
            let v = (&st.t).view();
            let mut s = String::new();
            let mut budget = cap;
            set_shape_rec(&v, &mut s, 0, &mut budget);
            sep(o);
            o.push_str(&s);
        }
        Op::SViewAt(p) => {
            // `view_at` on a set, read-only and mutable: existence, prefix, membership of the root,
            // the keys below, existence of the two sides
            let ro = (&st.t).view_at(p.clone());
            match &ro {
                None => {
                    sep(o);
                    o.push_str("none");
                }
                Some(v) => {
                    key(o, "pfx=");
                    w_p(o, v.prefix());
                    key(o, "val=");
                    w_b(o, v.value().is_some());
                    let ks = coll(v.keys(), cap);
                    key(o, "keys=");
                    w_list(o, ks, |o, p| w_p(o, p));
                    key(o, "l=");
                    w_b(o, v.left().is_some());
                    key(o, "r=");
                    w_b(o, v.right().is_some());
                }
            }
            let ro_some = ro.is_some();
            let ro_keys: Vec<P> = match &ro {
                Some(v) => coll(v.keys(), cap).into_iter().cloned().collect(),
                None => Vec::new(),
            };
            drop(ro);
            let mt = (&mut st.t).view_mut_at(p.clone());
            let mt_some = mt.is_some();
            if mt_some != ro_some {
                panic!("set view_mut_at disagrees with view_at on existence");
            }
            if let Some(mv) = mt {
                let (hl, hr) = (mv.has_left(), mv.has_right());
                let tw = (&mv).view();
                if tw.left().is_some() != hl || tw.right().is_some() != hr {
                    panic!("set view_mut: has_left/has_right disagree with the read-only twin");
                }
                let ks: Vec<P> = coll(tw.keys(), cap).into_iter().cloned().collect();
                if ks != ro_keys {
                    panic!("set view_mut_at addresses other keys than view_at");
                }
            }
        }
        Op::SObs => {
            let n = st.t.len();
            key(o, "len=");
            w_u(o, n);
            let e = st.t.is_empty();
            key(o, "empty=");
            w_b(o, e);
            let it = coll(st.t.iter(), cap);
            key(o, "iter=");
            w_list(o, it, |o, p| w_p(o, p));
            let it = coll(st.t.clone().into_iter(), cap);
            key(o, "into=");
            w_list(o, it, |o, p| w_p(o, &p));
            // the other ways to traverse / rebuild a set must agree with `iter()` (self-consistency:
            // a disagreement panics, which the comparison with the model then reports)
            let base: Vec<P> = coll(st.t.iter(), cap).into_iter().cloned().collect();
            let by_ref: Vec<P> = coll((&st.t).into_iter(), cap).into_iter().cloned().collect();
            let by_view: Vec<P> = coll(st.t.view().keys(), cap).into_iter().cloned().collect();
            let rebuilt: PrefixSet<P> = base.iter().cloned().collect();
            let by_children: Vec<P> = coll(st.t.children(&P::zero()), cap).into_iter().cloned().collect();
            if by_ref != base || by_view != base || by_children != base || rebuilt != st.t || st.t != rebuilt
                || rebuilt.len() != base.len() || st.t.clone() != st.t
            {
                panic!("set traversals disagree");
            }
            {
                let k = base.len() / 2;
                let mut it = st.t.clone().into_iter();
                let mut jt = st.t.iter();
                for _ in 0..k {
                    it.next();
                    jt.next();
                }
                let it2 = it.clone();
                let jt2 = jt.clone();
                let rest: Vec<P> = base[k..].to_vec();
                if coll(it, cap) != rest || coll(it2, cap) != rest
                    || coll(jt, cap).into_iter().cloned().collect::<Vec<_>>() != rest
                    || coll(jt2, cap).into_iter().cloned().collect::<Vec<_>>() != rest
                {
                    panic!("a cloned set iterator does not continue like the original");
                }
            }
            {
                // `PrefixSet::default()`, and a mutable view of a set (`AsViewMut for &mut PrefixSet`)
                let dflt: PrefixSet<P> = Default::default();
                let mut c = st.t.clone();
                let via_view_mut: Vec<P> = coll((&mut c).view_mut().into_iter(), cap).into_iter().map(|(p, _)| p.clone()).collect();
                if !dflt.is_empty() || dflt.len() != 0 || dflt.iter().next().is_some() || via_view_mut != base {
                    panic!("set default / view_mut disagree");
                }
            }
            if let Some(ok) = P::roundtrip_set(&st.t) {
                if !ok {
                    panic!("set serde round trip differs");
                }
            }
        }
        Op::SQ(p) => {
            let t = &st.t;
            let x = t.contains(p);
            key(o, "has=");
            w_b(o, x);
            let x = t.get(p);
            key(o, "get=");
            w_opt_p(o, x);
            let x = t.get_lpm(p);
            key(o, "lpm=");
            w_opt_p(o, x);
            let x = t.get_spm(p);
            key(o, "spm=");
            w_opt_p(o, x);
            let x = coll(t.cover(p), cap);
            key(o, "cover=");
            w_list(o, x, |o, p| w_p(o, p));
            let x = coll(t.children(p), cap);
            key(o, "ch=");
            w_list(o, x, |o, p| w_p(o, p));
        }
        Op::SUnion(n1, n2) => {
            let Some((v1, t1)) = nav_ro((&st.t).view(), n1) else {
                return noview(o);
            };
            let Some((v2, t2)) = nav_ro((&st.a).view(), n2) else {
                return noview(o);
            };
            sep(o);
            o.push_str(&t1);
            sep(o);
            o.push_str(&t2);
            let items = coll(v1.union(v2), cap);
            // the accessor methods of `UnionItem` must agree with its fields
            for it in &items {
                let (p, l, r, b) = match *it {
                    UnionItem::Left { prefix, left, right } => (prefix, Some((prefix, left)), right, None),
                    UnionItem::Right { prefix, left, right } => (prefix, left, Some((prefix, right)), None),
                    UnionItem::Both { prefix, left, right } => {
                        (prefix, Some((prefix, left)), Some((prefix, right)), Some((prefix, left, right)))
                    }
                };
                let same_l = match (it.left(), l) {
                    (Some((a, x)), Some((b, y))) => std::ptr::eq(a, b) && std::ptr::eq(x, y),
                    (None, None) => true,
                    _ => false,
                };
                let same_r = match (it.right(), r) {
                    (Some((a, x)), Some((b, y))) => std::ptr::eq(a, b) && std::ptr::eq(x, y),
                    (None, None) => true,
                    _ => false,
                };
                let same_b = match (it.both(), b) {
                    (Some((a, x, u)), Some((b, y, v))) => std::ptr::eq(a, b) && std::ptr::eq(x, y) && std::ptr::eq(u, v),
                    (None, None) => true,
                    _ => false,
                };
                if !(std::ptr::eq(it.prefix(), p) && same_l && same_r && same_b) {
                    panic!("UnionItem accessor disagrees with its fields");
                }
            }
            sep(o);
            w_list(o, items, |o, it| match it {
                UnionItem::Left { prefix, right, .. } => {
                    o.push_str("L:");
                    w_p(o, prefix);
                    o.push(':');
                    w_opt_pair(o, right.map(|(p, v)| (p, *v)));
                }
                UnionItem::Right { prefix, left, right } => {
                    o.push_str("R:");
                    w_p(o, prefix);
                    o.push(':');
                    w_opt_p(o, left.map(|(p, _)| p));
                    o.push('=');
                    w_i(o, *right);
                }
                UnionItem::Both { prefix, right, .. } => {
                    o.push_str("B:");
                    w_p(o, prefix);
                    o.push(':');
                    w_i(o, *right);
                }
            });
        }
        Op::Alg(p, q, i) => {
            let x = p.mask();
            key(o, "m1=");
            w_hex(o, x);
            let x = Prefix::eq(p, q);
            key(o, "eq=");
            w_b(o, x);
            let x = Prefix::contains(p, q);
            key(o, "c12=");
            w_b(o, x);
            let x = Prefix::contains(q, p);
            key(o, "c21=");
            w_b(o, x);
            let lcp = p.longest_common_prefix(q);
            key(o, "lcp=");
            w_p(o, &lcp);
            let x = lcp.mask();
            key(o, "lcpm=");
            w_hex(o, x);
            let x = p.is_bit_set(*i);
            key(o, "b1=");
            w_b(o, x);
            let x = q.is_bit_set(*i);
            key(o, "b2=");
            w_b(o, x);
            let z = P::zero();
            key(o, "z=");
            w_p(o, &z);
            let x = q.is_bit_set(p.prefix_len());
            key(o, "tr=");
            w_b(o, x);
        }
    }
}

// ------------------------------------------------------------------------------------------
// single-map operations
// ------------------------------------------------------------------------------------------

/// Write `<prefix>=<old>` for every item into a list, then write through every reference.
fn mut_pairs<'x, P: Prefix + 'x, T: Val>(
    items: Vec<(&'x P, &'x mut T)>,
    f: &Fun,
    o: &mut String,
) {
    let mut s = String::new();
    w_list(&mut s, items.iter(), |s, (p, v)| w_pair(s, *p, v.get()));
    for (i, (_, r)) in items.into_iter().enumerate() {
        write_through(r, f, i);
    }
    sep(o);
    o.push_str(&s);
}

/// Write `<old>` for every item into a list, then write through every reference.
fn mut_vals<T: Val>(items: Vec<&mut T>, f: &Fun, o: &mut String) {
    let mut s = String::new();
    w_list(&mut s, items.iter(), |s, v| w_i(s, v.get()));
    for (i, r) in items.into_iter().enumerate() {
        write_through(r, f, i);
    }
    sep(o);
    o.push_str(&s);
}

fn w_pairs<'x, P: Prefix + 'x, T: Val>(o: &mut String, items: Vec<(&'x P, &'x T)>) {
    w_list(o, items, |o, (p, v)| w_pair(o, p, v.get()));
}

fn map_op<P: PT, T: Val>(
    m: &mut PrefixMap<P, T>,
    saved: &mut PrefixMap<P, T>,
    op: &MapOp<P>,
    o: &mut String,
    cap: usize,
) {
    match op {
        MapOp::Ins(p, v) => {
            let old = m.insert(p.clone(), T::new(*v));
            sep(o);
            w_opt(o, old.map(|x| x.get()));
        }
        MapOp::Rem(p) => {
            let old = m.remove(p);
            sep(o);
            w_opt(o, old.map(|x| x.get()));
        }
        MapOp::RemK(p) => {
            let old = m.remove_keep_tree(p);
            sep(o);
            w_opt(o, old.map(|x| x.get()));
        }
        MapOp::RemC(p) => {
            m.remove_children(p);
            ok(o);
        }
        MapOp::Retain(pred, k) => {
            let mut log: Vec<(P, i64)> = Vec::new();
            let mut n = 0usize;
            let r = catch_unwind(AssertUnwindSafe(|| {
                m.retain(|p, v| {
                    let idx = n;
                    n += 1;
                    if Some(idx) == *k {
                        panic!("retain predicate");
                    }
                    let ans = pred.eval(p, v.get());
                    log.push((p.clone(), v.get()));
                    ans
                })
            }));
            log.sort_by_key(|(p, v)| (p.prefix_len(), p.repr().to_u128().unwrap(), *v));
            key(o, "calls=");
            w_list(o, log.iter(), |o, (p, v)| w_pair(o, p, *v));
            key(o, "panicked=");
            w_b(o, r.is_err());
        }
        MapOp::Clear => {
            m.clear();
            ok(o);
        }
        MapOp::Collect(rs) => {
            let entries: Vec<(P, T)> = coll(std::mem::take(m).into_iter(), cap);
            let n = entries.len();
            let mut slots: Vec<Option<(P, T)>> = entries.into_iter().map(Some).collect();
            let mut fw = Fenwick::ones(n);
            let mut perm: Vec<(P, T)> = Vec::with_capacity(n);
            for j in 0..n {
                let remaining = (n - j) as u64;
                let r = rs.get(j).copied().unwrap_or(0);
                let i = (r % remaining) as usize;
                let pos = fw.kth(i);
                fw.dec(pos);
                perm.push(slots[pos].take().unwrap());
            }
            *m = perm.into_iter().collect();
            ok(o);
        }
        MapOp::FromList(items) => {
            // `FromIterator` / `collect()` from a list that may repeat keys (later items win) — and
            // `Extend`-style re-insertion must agree with it (self-consistency)
            let built: PrefixMap<P, T> = items.iter().map(|(p, v)| (p.clone(), T::new(*v))).collect();
            let mut by_insert: PrefixMap<P, T> = PrefixMap::new();
            for (p, v) in items.iter() {
                by_insert.insert(p.clone(), T::new(*v));
            }
            if built != by_insert || built.len() != by_insert.len() {
                panic!("from_iter differs from inserting the items one by one");
            }
            *m = built;
            ok(o);
        }
        MapOp::Clone => {
            let c = m.clone();
            let e = c == *m;
            // `clone_from` into maps of other sizes must give the same map (self-consistency: a
            // disagreement panics): contents, len(), is_empty(), and it must stay usable
            for seed in 0..3u8 {
                let mut d: PrefixMap<P, T> = PrefixMap::new();
                for k in 0..(seed as usize * 8) {
                    if let Some((p, v)) = saved.iter().nth(k) {
                        d.insert(p.clone(), v.clone());
                    }
                }
                if seed == 2 {
                    d = saved.clone();
                }
                // release some slots of the destination first (a destination with a non-empty free
                // list): remove every second key
                // (not for the copy of `saved`, whose counter may be off by the known view-counter class)
                let ks: Vec<P> = if seed == 2 { Vec::new() } else { d.keys().cloned().collect() };
                for (j, k) in ks.iter().enumerate() {
                    if j % 2 == 0 {
                        d.remove(k);
                    }
                }
                d.clone_from(&*m);
                if d != *m || d.len() != m.len() || d.is_empty() != m.is_empty() || c.len() != m.len() {
                    panic!("clone_from differs from clone");
                }
                // the destination's arena must be partitioned into tree and free list (C16), whatever
                // the destination held before
                {
                    let mut tmp = String::new();
                    arena(&d, &mut tmp);
                    if !tmp.contains("part=1") {
                        panic!("clone_from left an arena whose slots are not partitioned into tree and free list");
                    }
                }
                // the destination must stay usable exactly like a clone: the same further
                // insertions and removals give the same map
                let mut r = m.clone();
                for (j, (p, v)) in saved.iter().take(8).enumerate() {
                    let a = d.insert(p.clone(), v.clone());
                    let b = r.insert(p.clone(), v.clone());
                    if a != b || d.len() != r.len() {
                        panic!("clone_from: insert into the destination differs from insert into a clone");
                    }
                    if j % 3 == 2 {
                        let a = d.remove(p);
                        let b = r.remove(p);
                        if a != b {
                            panic!("clone_from: remove from the destination differs from remove from a clone");
                        }
                    }
                }
                if d != r || d.len() != r.len() || d.iter().count() != r.iter().count() {
                    panic!("clone_from: the destination diverges from a clone under the same operations");
                }
                let before = d.len();
                let had = d.insert(P::zero(), T::new(7)).is_some();
                if d.len() != before + if had { 0 } else { 1 } {
                    panic!("clone_from left an inconsistent counter");
                }
            }
            m.insert(P::zero(), T::new(424242));
            m.clear();
            *m = c;
            key(o, "eq=");
            w_b(o, e);
        }
        MapOp::Save => {
            *saved = m.clone();
            ok(o);
        }
        MapOp::Eq => {
            let x = *m == *saved;
            sep(o);
            w_b(o, x);
            let y = *saved == *m;
            sep(o);
            w_b(o, y);
        }
        MapOp::GetMut(p, f) => {
            let old = match m.get_mut(p) {
                Some(r) => {
                    let old = r.get();
                    write_through(r, f, 0);
                    Some(old)
                }
                None => None,
            };
            sep(o);
            w_opt(o, old);
        }
        MapOp::LpmMut(p, f) => match m.get_lpm_mut(p) {
            Some((q, r)) => {
                let old = r.get();
                write_through(r, f, 0);
                sep(o);
                w_pair(o, q, old);
            }
            None => {
                sep(o);
                o.push('-');
            }
        },
        MapOp::IterMut(f) => {
            let items = coll(m.iter_mut(), cap);
            mut_pairs(items, f, o);
        }
        MapOp::ValsMut(f) => {
            let items = coll(m.values_mut(), cap);
            mut_vals(items, f, o);
        }
        MapOp::ChMut(p, f) => {
            let items = coll(m.children_mut(p), cap);
            mut_pairs(items, f, o);
        }
        MapOp::Entry(p, eops) => entry_op(m, p, eops, o),
        MapOp::View(nav, kind) => {
            let Some((v, trace)) = nav_ro((&*m).view(), nav) else {
                return noview(o);
            };
            sep(o);
            o.push_str(&trace);
            match kind {
                ViewKind::Dump => dump(&v, o, cap),
                ViewKind::Walk => {
                    let s = shape_string(&v, cap);
                    sep(o);
                    o.push_str(&s);
                }
            }
        }
        MapOp::Shape => {
            let v = (&*m).view();
            let s = shape_string(&v, cap);
            sep(o);
            o.push_str(&s);
        }
        MapOp::ViewMut(nav, act) => {
            let Some((v, trace)) = nav_mut(m.view_mut(), nav) else {
                return noview(o);
            };
            sep(o);
            o.push_str(&trace);
            view_mut_act(v, act, o, cap);
        }
        MapOp::SameMut(kind, nav, f1, f2) => {
            let Some((v, trace)) = nav_mut(m.view_mut(), nav) else {
                return noview(o);
            };
            sep(o);
            o.push_str(&trace);
            let (Some(mut l), Some(r)) = v.split() else {
                return noview(o);
            };
            match kind {
                SetKind::Union => {
                    let items = coll(l.union_mut(r), cap);
                    fin_union_mut(items, f1, f2.as_ref().unwrap(), o);
                }
                SetKind::Inter => {
                    let items = coll(l.intersection_mut(r), cap);
                    fin_inter_mut(items, f1, f2.as_ref().unwrap(), o);
                }
                SetKind::Diff => {
                    let items = coll(l.difference_mut(&r), cap);
                    let items = items.into_iter().map(|d| (d.prefix, d.value, d.right)).collect();
                    fin_diff_mut(items, f1, o);
                }
                SetKind::CDiff => {
                    let items = coll(l.covering_difference_mut(&r), cap);
                    mut_pairs(items, f1, o);
                }
            }
        }
        MapOp::Obs => {
            let n = m.len();
            key(o, "len=");
            w_u(o, n);
            let e = m.is_empty();
            key(o, "empty=");
            w_b(o, e);
            let it = coll(m.iter(), cap);
            key(o, "iter=");
            w_pairs(o, it);
        }
        MapOp::Q(p) => query(m, p, o, cap),
        MapOp::Iters => iters(m, o, cap),
        MapOp::Arena => arena(m, o),
        MapOp::ArenaX => arenax(m, o),
        MapOp::Alias => alias(m, o, cap),
        MapOp::Par(k) => par(m, *k, o, cap),
        MapOp::Serde => match P::roundtrip(m) {
            None => {
                sep(o);
                o.push_str("unsupported");
            }
            Some(d) => {
                let e = d == *m;
                key(o, "eq=");
                w_b(o, e);
                let it = coll(d.iter(), cap);
                key(o, "iter=");
                w_pairs(o, it);
            }
        },
    }
}


// ---------------------------------------------------------------------------------------------
// C14: exclusivity of mutable access
// ---------------------------------------------------------------------------------------------

fn all_distinct(v: &[usize]) -> bool {
    let mut s = v.to_vec();
    s.sort_unstable();
    s.windows(2).all(|w| w[0] != w[1])
}

fn same_set(a: &[usize], b: &[usize]) -> bool {
    let mut x = a.to_vec();
    let mut y = b.to_vec();
    x.sort_unstable();
    x.dedup();
    y.sort_unstable();
    y.dedup();
    x == y
}

/// Addresses of the values reachable by recursively splitting a mutable view: the view's own
/// value (through `value_mut`), then everything below `left()` and below `right()`.
fn split_addrs<P: Prefix, T>(mut v: TrieViewMut<'_, P, T>, depth: usize, cap: usize, out: &mut Vec<usize>) {
    if depth > cap || out.len() > cap {
        panic!("hang guard");
    }
    if let Some(r) = v.value_mut() {
        out.push(r as *mut T as usize);
    }
    let (l, r) = v.split();
    if let Some(l) = l {
        split_addrs(l, depth + 1, cap, out);
    }
    if let Some(r) = r {
        split_addrs(r, depth + 1, cap, out);
    }
}

/// `alias X`: while ONE mutable borrow of the map is alive, collect every mutable reference a
/// traversal hands out (all held at the same time) and compare their addresses.
fn alias<P: PT, T: Val>(m: &mut PrefixMap<P, T>, o: &mut String, cap: usize) {
    // iter_mut: all references of one iterator
    let it: Vec<usize> = coll(m.iter_mut(), cap).into_iter().map(|(_, r)| r as *mut T as usize).collect();
    key(o, "n=");
    w_u(o, it.len());
    key(o, "iter=");
    w_b(o, all_distinct(&it));
    let vals: Vec<usize> = coll(m.values_mut(), cap).into_iter().map(|r| r as *mut T as usize).collect();
    key(o, "vals=");
    w_b(o, vals == it);
    // views obtained by recursive split() of one mutable view
    let mut sp = Vec::new();
    split_addrs(m.view_mut(), 0, cap, &mut sp);
    key(o, "split=");
    w_b(o, all_distinct(&sp));
    key(o, "cover=");
    w_b(o, same_set(&sp, &it));
    // *_mut set operations over the two halves of one map: both sides' references live together
    let mut okk = true;
    if let (Some(mut l), Some(r)) = m.view_mut().split() {
        let mut a = Vec::new();
        for x in coll(l.union_mut(r), cap) {
            let (_, lv, rv) = x;
            if let Some(lv) = lv {
                a.push(lv as *mut T as usize);
            }
            if let Some(rv) = rv {
                a.push(rv as *mut T as usize);
            }
        }
        okk &= all_distinct(&a) && a.iter().all(|x| it.contains(x));
    }
    if let (Some(mut l), Some(r)) = m.view_mut().split() {
        let mut a = Vec::new();
        for (_, lv, rv) in coll(l.intersection_mut(r), cap) {
            a.push(lv as *mut T as usize);
            a.push(rv as *mut T as usize);
        }
        okk &= all_distinct(&a) && a.iter().all(|x| it.contains(x));
    }
    if let (Some(mut l), Some(r)) = m.view_mut().split() {
        let mut a = Vec::new();
        let rset: Vec<usize> = coll((&r).view().iter(), cap).into_iter().map(|(_, v)| v as *const T as usize).collect();
        for d in coll(l.difference_mut(&r), cap) {
            a.push(d.value as *mut T as usize);
        }
        okk &= all_distinct(&a) && a.iter().all(|x| it.contains(x) && !rset.contains(x));
    }
    if let (Some(mut l), Some(r)) = m.view_mut().split() {
        let mut a = Vec::new();
        for (_, v) in coll(l.covering_difference_mut(&r), cap) {
            a.push(v as *mut T as usize);
        }
        okk &= all_distinct(&a) && a.iter().all(|x| it.contains(x));
    }
    key(o, "sets=");
    w_b(o, okk);
}

/// Split a mutable view `k` levels deep; the value at every node that is split is written by the
/// caller (`3x+7`), the remaining sub-views become the jobs of the workers.
fn par_jobs<'a, P: Prefix, T: Val>(mut v: TrieViewMut<'a, P, T>, depth: usize, k: usize, jobs: &mut Vec<TrieViewMut<'a, P, T>>) {
    if depth >= k {
        jobs.push(v);
        return;
    }
    if let Some(r) = v.value_mut() {
        let x = r.get();
        *r = T::new(x.wrapping_mul(3).wrapping_add(7));
    }
    let (l, r) = v.split();
    if let Some(l) = l {
        par_jobs(l, depth + 1, k, jobs);
    }
    if let Some(r) = r {
        par_jobs(r, depth + 1, k, jobs);
    }
}

/// `par X k`: worker `i` (numbered in left-to-right order of the sub-views) maps every value of
/// its sub-view to `3x+i`, all workers running concurrently on their disjoint sub-views.
fn par<P: PT, T: Val>(m: &mut PrefixMap<P, T>, k: usize, o: &mut String, cap: usize) {
    let mut jobs = Vec::new();
    par_jobs(m.view_mut(), 0, k.min(6), &mut jobs);
    let n = jobs.len();
    let barrier = std::sync::Barrier::new(n.max(1));
    std::thread::scope(|s| {
        for (i, mut job) in jobs.into_iter().enumerate() {
            let barrier = &barrier;
            s.spawn(move || {
                barrier.wait();
                let mut cnt = 0usize;
                for (_, r) in job.iter_mut() {
                    cnt += 1;
                    if cnt > cap {
                        panic!("hang guard");
                    }
                    let x = r.get();
                    if (cnt + i) % 2 == 0 {
                        std::thread::yield_now();
                    }
                    *r = T::new(x.wrapping_mul(3).wrapping_add(i as i64));
                    std::thread::yield_now();
                }
            });
        }
    });
    key(o, "jobs=");
    w_u(o, n);
}

/// Fenwick tree over `n` slots, all initially 1: order statistics for the `collect` permutation.
struct Fenwick {
    t: Vec<usize>,
    n: usize,
}

impl Fenwick {
    fn ones(n: usize) -> Self {
        let mut t = vec![0usize; n + 1];
        for i in 1..=n {
            t[i] += 1;
            let j = i + (i & i.wrapping_neg());
            if j <= n {
                t[j] += t[i];
            }
        }
        Fenwick { t, n }
    }

    /// 0-based position of the `k`-th (0-based) remaining slot.
    fn kth(&self, k: usize) -> usize {
        let mut pos = 0usize;
        let mut rem = k + 1;
        let mut step = if self.n == 0 { 0 } else { 1usize << (usize::BITS - 1 - self.n.leading_zeros()) };
        while step > 0 {
            let next = pos + step;
            if next <= self.n && self.t[next] < rem {
                pos = next;
                rem -= self.t[next];
            }
            step >>= 1;
        }
        pos
    }

    fn dec(&mut self, pos: usize) {
        let mut i = pos + 1;
        while i <= self.n {
            self.t[i] -= 1;
            i += i & i.wrapping_neg();
        }
    }
}

fn entry_op<P: PT, T: Val>(m: &mut PrefixMap<P, T>, p: &P, eops: &[Eop], o: &mut String) {
    enum Es<'a, P, T> {
        E(Entry<'a, P, T>),
        O(OccupiedEntry<'a, P, T>),
        V(VacantEntry<'a, P, T>),
        Done,
    }
    fn wv(o: &mut String) {
        sep(o);
        o.push_str("WV");
    }

    let mut st = Es::E(m.entry(p.clone()));
    for eop in eops {
        let cur = std::mem::replace(&mut st, Es::Done);
        match eop {
            // ----- operations on the unmatched `Entry`
            Eop::Get
            | Eop::GetMut(_)
            | Eop::Key
            | Eop::Insert(_)
            | Eop::OrInsert(_)
            | Eop::OrInsertWith(_)
            | Eop::OrDefault
            | Eop::AndModify(_) => {
                let Es::E(mut e) = cur else {
                    return wv(o);
                };
                match eop {
                    Eop::Get => {
                        let v = e.get().map(|x| x.get());
                        sep(o);
                        w_opt(o, v);
                        st = Es::E(e);
                    }
                    Eop::GetMut(f) => {
                        let old = match e.get_mut() {
                            Some(r) => {
                                let old = r.get();
                                write_through(r, f, 0);
                                Some(old)
                            }
                            None => None,
                        };
                        sep(o);
                        w_opt(o, old);
                        st = Es::E(e);
                    }
                    Eop::Key => {
                        sep(o);
                        w_p(o, e.key());
                        st = Es::E(e);
                    }
                    Eop::Insert(v) => {
                        let old = e.insert(T::new(*v));
                        sep(o);
                        w_opt(o, old.map(|x| x.get()));
                    }
                    Eop::OrInsert(v) => {
                        let seen = e.or_insert(T::new(*v)).get();
                        sep(o);
                        w_i(o, seen);
                    }
                    Eop::OrInsertWith(v) => {
                        let seen = match v {
                            Some(v) => e.or_insert_with(|| T::new(*v)).get(),
                            None => e.or_insert_with(|| -> T { panic!("closure") }).get(),
                        };
                        sep(o);
                        w_i(o, seen);
                    }
                    Eop::OrDefault => {
                        let seen = e.or_default().get();
                        sep(o);
                        w_i(o, seen);
                    }
                    Eop::AndModify(f) => {
                        let e = e.and_modify(|x| write_through(x, f, 0));
                        ok(o);
                        st = Es::E(e);
                    }
                    _ => unreachable!(),
                }
            }
            // ----- operations on an `OccupiedEntry`
            Eop::OccKey | Eop::OccGet | Eop::OccGetMut(_) | Eop::OccInsert(_) | Eop::OccRemove => {
                let mut oc = match cur {
                    Es::O(oc) => oc,
                    Es::E(Entry::Occupied(oc)) => oc,
                    _ => return wv(o),
                };
                match eop {
                    Eop::OccKey => {
                        sep(o);
                        w_p(o, oc.key());
                        st = Es::O(oc);
                    }
                    Eop::OccGet => {
                        let v = oc.get().get();
                        sep(o);
                        w_i(o, v);
                        st = Es::O(oc);
                    }
                    Eop::OccGetMut(f) => {
                        let r = oc.get_mut();
                        let old = r.get();
                        write_through(r, f, 0);
                        sep(o);
                        w_i(o, old);
                        st = Es::O(oc);
                    }
                    Eop::OccInsert(v) => {
                        let old = oc.insert(T::new(*v)).get();
                        sep(o);
                        w_i(o, old);
                    }
                    Eop::OccRemove => {
                        let old = oc.remove().get();
                        sep(o);
                        w_i(o, old);
                        st = Es::O(oc);
                    }
                    _ => unreachable!(),
                }
            }
            // ----- operations on a `VacantEntry`
            Eop::VacKey | Eop::VacInsert(_) | Eop::VacInsertWith(_) | Eop::VacDefault => {
                let va = match cur {
                    Es::V(va) => va,
                    Es::E(Entry::Vacant(va)) => va,
                    _ => return wv(o),
                };
                match eop {
                    Eop::VacKey => {
                        sep(o);
                        w_p(o, va.key());
                        st = Es::V(va);
                    }
                    Eop::VacInsert(v) => {
                        let seen = va.insert(T::new(*v)).get();
                        sep(o);
                        w_i(o, seen);
                    }
                    Eop::VacInsertWith(v) => {
                        let seen = match v {
                            Some(v) => va.insert_with(|| T::new(*v)).get(),
                            None => va.insert_with(|| -> T { panic!("closure") }).get(),
                        };
                        sep(o);
                        w_i(o, seen);
                    }
                    Eop::VacDefault => {
                        let seen = va.default().get();
                        sep(o);
                        w_i(o, seen);
                    }
                    _ => unreachable!(),
                }
            }
        }
    }
}

fn dump<P: PT, T: Val>(v: &TrieView<'_, P, T>, o: &mut String, cap: usize) {
    key(o, "pfx=");
    w_p(o, v.prefix());
    let x = v.value().map(|x| x.get());
    key(o, "val=");
    w_opt(o, x);
    let x = v.prefix_value().map(|(p, v)| (p, v.get()));
    key(o, "pv=");
    w_opt_pair(o, x);
    let x = coll(v.iter(), cap);
    key(o, "iter=");
    w_pairs(o, x);
    let x = coll(v.keys(), cap);
    key(o, "keys=");
    w_list(o, x, |o, p| w_p(o, p));
    let x = coll(v.values(), cap);
    key(o, "vals=");
    w_list(o, x, |o, v| w_i(o, v.get()));
    let l = v.left();
    key(o, "l=");
    w_opt_p(o, l.as_ref().map(|x| x.prefix()));
    let r = v.right();
    key(o, "r=");
    w_opt_p(o, r.as_ref().map(|x| x.prefix()));
}

fn set_shape_rec<P: PT>(v: &TrieView<'_, P, ()>, s: &mut String, depth: usize, budget: &mut usize) {
    if depth > 1024 || *budget == 0 {
        panic!("hang guard");
    }
    *budget -= 1;
    s.push('(');
    w_p(s, v.prefix());
    s.push(' ');
    s.push(if v.value().is_some() { '1' } else { '-' });
    s.push(' ');
    match v.left() {
        Some(l) => set_shape_rec(&l, s, depth + 1, budget),
        None => s.push('.'),
    }
    s.push(' ');
    match v.right() {
        Some(r) => set_shape_rec(&r, s, depth + 1, budget),
        None => s.push('.'),
    }
    s.push(')');
}

fn shape_string<P: PT, T: Val>(v: &TrieView<'_, P, T>, cap: usize) -> String {
    let mut s = String::new();
    let mut budget = cap;
    shape_rec(v, &mut s, 0, &mut budget);
    s
}

fn shape_rec<P: PT, T: Val>(v: &TrieView<'_, P, T>, s: &mut String, depth: usize, budget: &mut usize) {
    if depth > 1024 || *budget == 0 {
        panic!("hang guard");
    }
    *budget -= 1;
    s.push('(');
    w_p(s, v.prefix());
    s.push(' ');
    w_opt(s, v.value().map(|x| x.get()));
    s.push(' ');
    match v.left() {
        Some(l) => shape_rec(&l, s, depth + 1, budget),
        None => s.push('.'),
    }
    s.push(' ');
    match v.right() {
        Some(r) => shape_rec(&r, s, depth + 1, budget),
        None => s.push('.'),
    }
    s.push(')');
}

fn view_mut_act<P: PT, T: Val>(mut v: TrieViewMut<'_, P, T>, act: &Act, o: &mut String, cap: usize) {
    match act {
        Act::Info => {
            // `prefix_value()` of the mutable view must agree with `prefix()` / `value()`
            {
                let pv = v.prefix_value().map(|(p, x)| (p.clone(), x.get()));
                let expect = v.value().map(|x| (v.prefix().clone(), x.get()));
                if pv != expect {
                    panic!("TrieViewMut::prefix_value disagrees with prefix()/value()");
                }
            }
            key(o, "pfx=");
            w_p(o, v.prefix());
            let x = v.value().map(|x| x.get());
            key(o, "val=");
            w_opt(o, x);
            let x = v.has_left();
            key(o, "hl=");
            w_b(o, x);
            let x = v.has_right();
            key(o, "hr=");
            w_b(o, x);
        }
        Act::Ro => {
            // the read-only twin borrowed from the mutable view (`AsView for &TrieViewMut`): all of
            // its observers, not only the iterator; and `view_at` on it
            let ro = (&v).view();
            dump(&ro, o, cap);
            let again = (&v).view_at(ro.prefix().clone());
            let same = match again {
                Some(a) => a.prefix() == ro.prefix() && a.iter().count() == ro.iter().count(),
                None => ro.iter().next().is_none() && false,
            };
            key(o, "at=");
            w_b(o, same || ro.iter().next().is_none());
        }
        Act::Set(val) => match v.set(T::new(*val)) {
            Ok(old) => {
                key(o, "ok:");
                w_opt(o, old.map(|x| x.get()));
            }
            Err(back) => {
                key(o, "err:");
                w_i(o, back.get());
            }
        },
        Act::Remove => {
            let old = v.remove();
            sep(o);
            w_opt(o, old.map(|x| x.get()));
        }
        Act::VMut(f) => {
            let old = match v.value_mut() {
                Some(r) => {
                    let old = r.get();
                    write_through(r, f, 0);
                    Some(old)
                }
                None => None,
            };
            sep(o);
            w_opt(o, old);
        }
        Act::PvMut(f) => match v.prefix_value_mut() {
            Some((p, r)) => {
                let old = r.get();
                write_through(r, f, 0);
                sep(o);
                w_pair(o, p, old);
            }
            None => {
                sep(o);
                o.push('-');
            }
        },
        Act::IterMut(f) => {
            let items = coll(v.iter_mut(), cap);
            mut_pairs(items, f, o);
        }
        Act::IntoIter(f) => {
            let items = coll(v.into_iter(), cap);
            mut_pairs(items, f, o);
        }
        Act::ValsMut(f) => {
            let items = coll(v.values_mut(), cap);
            mut_vals(items, f, o);
        }
    }
}

fn query<P: PT, T: Val>(m: &PrefixMap<P, T>, p: &P, o: &mut String, cap: usize) {
    let x = m.get(p).map(|x| x.get());
    key(o, "get=");
    w_opt(o, x);
    let x = m.get_key_value(p).map(|(p, v)| (p, v.get()));
    key(o, "kv=");
    w_opt_pair(o, x);
    let x = m.contains_key(p);
    key(o, "ck=");
    w_b(o, x);
    let x = m.get_lpm(p).map(|(p, v)| (p, v.get()));
    key(o, "lpm=");
    w_opt_pair(o, x);
    let x = m.get_lpm_prefix(p);
    key(o, "lpmp=");
    w_opt_p(o, x);
    let x = m.get_spm(p).map(|(p, v)| (p, v.get()));
    key(o, "spm=");
    w_opt_pair(o, x);
    let x = m.get_spm_prefix(p);
    key(o, "spmp=");
    w_opt_p(o, x);

    let mut cover = m.cover(p);
    let mut x = Vec::new();
    while let Some(item) = cover.next() {
        if x.len() >= cap {
            panic!("hang guard");
        }
        x.push(item);
    }
    key(o, "cover=");
    w_pairs(o, x);
    let x = coll(m.cover_keys(p), cap);
    key(o, "ckeys=");
    w_list(o, x, |o, p| w_p(o, p));
    let x = coll(m.cover_values(p), cap);
    key(o, "cvals=");
    w_list(o, x, |o, v| w_i(o, v.get()));
    let n1 = cover.next().is_none();
    let n2 = cover.next().is_none();
    key(o, "cf=");
    w_b(o, n1 && n2);

    let x = coll(m.children(p), cap);
    key(o, "ch=");
    w_pairs(o, x);
    // into_children has its own entry point (start search + owning iterator)
    let x = coll(m.clone().into_children(p), cap);
    key(o, "ich=");
    w_list(o, x, |o, (p, v)| w_pair(o, &p, v.get()));

    match m.view_at(p.clone()) {
        None => {
            key(o, "va=");
            o.push('-');
        }
        Some(v) => {
            let keys = coll(v.keys(), cap);
            key(o, "va=");
            o.push('(');
            w_p(o, v.prefix());
            o.push(' ');
            w_opt(o, v.value().map(|x| x.get()));
            o.push(' ');
            w_list(o, keys, |o, p| w_p(o, p));
            o.push(')');
        }
    }
}

/// three extra `next()` calls on an exhausted iterator all return `None`
fn fused3<I: Iterator>(mut it: I, cap: usize) -> bool {
    let mut n = 0usize;
    while it.next().is_some() {
        n += 1;
        if n > cap {
            panic!("hang guard");
        }
    }
    let a = it.next().is_none();
    let b = it.next().is_none();
    let c = it.next().is_none();
    a && b && c
}

fn iters<P: PT, T: Val>(m: &mut PrefixMap<P, T>, o: &mut String, cap: usize) {
    let x = coll(m.iter(), cap);
    let n = x.len();
    key(o, "iter=");
    w_pairs(o, x);
    let x = coll(m.keys(), cap);
    key(o, "keys=");
    w_list(o, x, |o, p| w_p(o, p));
    let x = coll(m.values(), cap);
    key(o, "vals=");
    w_list(o, x, |o, v| w_i(o, v.get()));
    let x = coll((&*m).into_iter(), cap);
    key(o, "ref=");
    w_pairs(o, x);
    let x = coll(m.clone().into_iter(), cap);
    key(o, "into=");
    w_list(o, x, |o, (p, v)| w_pair(o, &p, v.get()));
    let x = coll(m.clone().into_keys(), cap);
    key(o, "ikeys=");
    w_list(o, x, |o, p| w_p(o, &p));
    let x = coll(m.clone().into_values(), cap);
    key(o, "ivals=");
    w_list(o, x, |o, v| w_i(o, v.get()));
    let x = coll(m.clone().into_children(&P::zero()), cap);
    key(o, "ich=");
    w_list(o, x, |o, (p, v)| w_pair(o, &p, v.get()));

    let mut it = m.iter();
    for _ in 0..n / 2 {
        it.next();
    }
    let it2 = it.clone();
    let r1 = coll(it, cap);
    let r2 = coll(it2, cap);
    let same = r1.len() == r2.len()
        && r1
            .iter()
            .zip(r2.iter())
            .all(|((p1, v1), (p2, v2))| *p1 == *p2 && *v1 == *v2);
    key(o, "clone=");
    w_b(o, same);

    // further flavours, checked for self-consistency with `iter()` (a disagreement panics)
    {
        let base: Vec<(P, i64)> = coll(m.iter(), cap).into_iter().map(|(p, v)| (p.clone(), v.get())).collect();
        let v = m.view();
        let by_view: Vec<(P, i64)> = coll(v.iter(), cap).into_iter().map(|(p, v)| (p.clone(), v.get())).collect();
        let by_view_into: Vec<(P, i64)> = coll(v.clone().into_iter(), cap).into_iter().map(|(p, v)| (p.clone(), v.get())).collect();
        let by_children: Vec<(P, i64)> = coll(m.children(&P::zero()), cap).into_iter().map(|(p, v)| (p.clone(), v.get())).collect();
        let by_mut: Vec<(P, i64)> = coll(m.iter_mut(), cap).into_iter().map(|(p, v)| (p.clone(), v.get())).collect();
        let by_vals_mut: Vec<i64> = coll(m.values_mut(), cap).into_iter().map(|v| v.get()).collect();
        let by_view_mut: Vec<(P, i64)> = coll(m.view_mut().into_iter(), cap).into_iter().map(|(p, v)| (p.clone(), v.get())).collect();
        let n_default = prefix_trie::map::Iter::<P, T>::default().count() + prefix_trie::map::IterMut::<P, T>::default().count();
        if by_view != base || by_view_into != base || by_children != base || by_mut != base || by_view_mut != base
            || by_vals_mut != base.iter().map(|x| x.1).collect::<Vec<_>>() || n_default != 0
            || base.len() != m.iter().count()
        {
            panic!("iterator flavours disagree");
        }
    }
    // a clone taken mid-way must continue exactly like the original, for every cloneable flavour
    {
        fn midway<I: Iterator + Clone>(mut it: I, k: usize, cap: usize) -> (Vec<I::Item>, Vec<I::Item>) {
            for _ in 0..k {
                it.next();
            }
            let c = it.clone();
            (coll(it, cap), coll(c, cap))
        }
        let base: Vec<(P, i64)> = coll(m.iter(), cap).into_iter().map(|(p, v)| (p.clone(), v.get())).collect();
        for k in [1usize, n / 3, n / 2] {
            if k > n {
                continue;
            }
            let rest: Vec<(P, i64)> = base[k.min(base.len())..].to_vec();
            let (a, b) = midway(m.clone().into_iter(), k, cap);
            let a: Vec<(P, i64)> = a.into_iter().map(|(p, v)| (p, v.get())).collect();
            let b: Vec<(P, i64)> = b.into_iter().map(|(p, v)| (p, v.get())).collect();
            let (ka, kb) = midway(m.clone().into_keys(), k, cap);
            let (va, vb) = midway(m.clone().into_values(), k, cap);
            let (ra, rb) = midway(m.keys(), k, cap);
            let (sa, sb) = midway(m.values(), k, cap);
            let keys: Vec<P> = rest.iter().map(|x| x.0.clone()).collect();
            let vals: Vec<i64> = rest.iter().map(|x| x.1).collect();
            if a != rest || b != rest || ka != keys || kb != keys
                || va.iter().map(|v| v.get()).collect::<Vec<_>>() != vals
                || vb.iter().map(|v| v.get()).collect::<Vec<_>>() != vals
                || ra.into_iter().cloned().collect::<Vec<_>>() != keys
                || rb.into_iter().cloned().collect::<Vec<_>>() != keys
                || sa.iter().map(|v| v.get()).collect::<Vec<_>>() != vals
                || sb.iter().map(|v| v.get()).collect::<Vec<_>>() != vals
            {
                panic!("a cloned iterator does not continue like the original");
            }
        }
    }
    let f1 = fused3(m.iter(), cap);
    let f2 = fused3(m.keys(), cap);
    let f3 = fused3(m.values(), cap);
    let f4 = fused3(m.clone().into_iter(), cap);
    let f5 = fused3(m.iter_mut(), cap);
    key(o, "fused=");
    w_b(o, f1 && f2 && f3 && f4 && f5);
}


/// `arenax X`: the arena as it is — length, free list (bottom to top of the stack), counter and,
/// for EVERY slot (also released ones), its left link, right link and whether it holds a value.
fn arenax<P: PT, T: Val>(m: &PrefixMap<P, T>, o: &mut String) {
    let (alen, free, count, slots) = m.verif_arena();
    key(o, "alen=");
    w_u(o, alen);
    key(o, "count=");
    w_u(o, count);
    key(o, "free=");
    w_list(o, free, |o, i| w_u(o, i));
    key(o, "slots=");
    w_list(o, slots, |o, (l, r, v)| {
        match l {
            Some(i) => w_u(o, i),
            None => o.push('-'),
        }
        o.push(':');
        match r {
            Some(i) => w_u(o, i),
            None => o.push('-'),
        }
        o.push(':');
        o.push(if v { '1' } else { '0' });
    });
}

fn arena<P: PT, T: Val>(m: &PrefixMap<P, T>, o: &mut String) {
    let (alen, free, _count, slots) = m.verif_arena();
    let mut part = slots.len() == alen;
    let mut reach = vec![false; alen];
    let mut nreach = 0usize;
    if alen > 0 {
        let mut stack = vec![0usize];
        reach[0] = true;
        nreach = 1;
        while let Some(i) = stack.pop() {
            let (l, r, _) = slots[i];
            for c in [l, r].into_iter().flatten() {
                if c >= alen {
                    part = false;
                } else if reach[c] {
                    // reached twice (shared node or cycle)
                    part = false;
                } else {
                    reach[c] = true;
                    nreach += 1;
                    stack.push(c);
                }
            }
        }
    }
    let mut in_free = vec![false; alen];
    for &f in &free {
        if f >= alen {
            part = false;
        } else if in_free[f] {
            part = false;
        } else {
            in_free[f] = true;
        }
    }
    for i in 0..alen {
        // exactly one of the two
        if reach[i] == in_free[i] {
            part = false;
        }
    }
    key(o, "alen=");
    w_u(o, alen);
    key(o, "nfree=");
    w_u(o, free.len());
    key(o, "nreach=");
    w_u(o, nreach);
    key(o, "part=");
    w_b(o, part);
    key(o, "count=");
    w_u(o, m.len());
}

// ------------------------------------------------------------------------------------------
// operations over two views
// ------------------------------------------------------------------------------------------

fn two_ro<P: PT, L: Val, R: Val>(
    kind: SetKind,
    l: &PrefixMap<P, L>,
    r: &PrefixMap<P, R>,
    n1: &[Step<P>],
    n2: &[Step<P>],
    o: &mut String,
    cap: usize,
) {
    let Some((v1, t1)) = nav_ro(l.view(), n1) else {
        return noview(o);
    };
    let Some((v2, t2)) = nav_ro(r.view(), n2) else {
        return noview(o);
    };
    sep(o);
    o.push_str(&t1);
    sep(o);
    o.push_str(&t2);
    match kind {
        SetKind::Union => {
            let items = coll(v1.union(v2), cap);
            sep(o);
            w_list(o, items, |o, it| match it {
                UnionItem::Left { prefix, left, right } => {
                    o.push_str("L:");
                    w_pair(o, prefix, left.get());
                    o.push(':');
                    w_opt_pair(o, right.map(|(p, v)| (p, v.get())));
                }
                UnionItem::Right { prefix, left, right } => {
                    o.push_str("R:");
                    w_p(o, prefix);
                    o.push('=');
                    w_opt_pair(o, left.map(|(p, v)| (p, v.get())));
                    o.push(':');
                    w_i(o, right.get());
                }
                UnionItem::Both { prefix, left, right } => {
                    o.push_str("B:");
                    w_pair(o, prefix, left.get());
                    o.push(':');
                    w_i(o, right.get());
                }
            });
        }
        SetKind::Inter => {
            let items = coll(v1.intersection(v2), cap);
            sep(o);
            w_list(o, items, |o, (p, l, r)| {
                w_pair(o, p, l.get());
                o.push(':');
                w_i(o, r.get());
            });
        }
        SetKind::Diff => {
            let items = coll(v1.difference(v2), cap);
            sep(o);
            w_list(o, items, |o, d| {
                w_pair(o, d.prefix, d.value.get());
                o.push(':');
                w_opt_pair(o, d.right.map(|(p, v)| (p, v.get())));
            });
        }
        SetKind::CDiff => {
            let items = coll(v1.covering_difference(v2), cap);
            sep(o);
            w_pairs(o, items);
        }
    }
}

/// `<prefix>=<opt l>:<opt r>`; then left references get `f1`, right references `f2`.
fn fin_union_mut<'x, P: Prefix + 'x, L: Val, R: Val>(
    items: Vec<(&'x P, Option<&'x mut L>, Option<&'x mut R>)>,
    f1: &Fun,
    f2: &Fun,
    o: &mut String,
) {
    let mut s = String::new();
    w_list(&mut s, items.iter(), |s, (p, l, r)| {
        w_p(s, *p);
        s.push('=');
        w_opt(s, l.as_ref().map(|x| x.get()));
        s.push(':');
        w_opt(s, r.as_ref().map(|x| x.get()));
    });
    for (i, (_, l, r)) in items.into_iter().enumerate() {
        if let Some(l) = l {
            write_through(l, f1, i);
        }
        if let Some(r) = r {
            write_through(r, f2, i);
        }
    }
    sep(o);
    o.push_str(&s);
}

/// `<prefix>=<l>:<r>`
fn fin_inter_mut<'x, P: Prefix + 'x, L: Val, R: Val>(
    items: Vec<(&'x P, &'x mut L, &'x mut R)>,
    f1: &Fun,
    f2: &Fun,
    o: &mut String,
) {
    let mut s = String::new();
    w_list(&mut s, items.iter(), |s, (p, l, r)| {
        w_pair(s, *p, l.get());
        s.push(':');
        w_i(s, r.get());
    });
    for (i, (_, l, r)) in items.into_iter().enumerate() {
        write_through(l, f1, i);
        write_through(r, f2, i);
    }
    sep(o);
    o.push_str(&s);
}

/// `<prefix>=<l>:<pair or ->`
#[allow(clippy::type_complexity)]
fn fin_diff_mut<'x, P: Prefix + 'x, L: Val, R: Val>(
    items: Vec<(&'x P, &'x mut L, Option<(&'x P, &'x R)>)>,
    f1: &Fun,
    o: &mut String,
) {
    let mut s = String::new();
    w_list(&mut s, items.iter(), |s, (p, l, r)| {
        w_pair(s, *p, l.get());
        s.push(':');
        w_opt_pair(s, r.map(|(p, v)| (p, v.get())));
    });
    for (i, (_, l, _)) in items.into_iter().enumerate() {
        write_through(l, f1, i);
    }
    sep(o);
    o.push_str(&s);
}

#[allow(clippy::too_many_arguments)]
fn two_mut<P: PT, L: Val, R: Val>(
    kind: SetKind,
    l: &mut PrefixMap<P, L>,
    r: &mut PrefixMap<P, R>,
    n1: &[Step<P>],
    n2: &[Step<P>],
    f1: &Fun,
    f2: Option<&Fun>,
    o: &mut String,
    cap: usize,
) {
    let Some((mut v1, t1)) = nav_mut(l.view_mut(), n1) else {
        return noview(o);
    };
    match kind {
        SetKind::Union | SetKind::Inter => {
            let Some((v2, t2)) = nav_mut(r.view_mut(), n2) else {
                return noview(o);
            };
            sep(o);
            o.push_str(&t1);
            sep(o);
            o.push_str(&t2);
            if matches!(kind, SetKind::Union) {
                let items = coll(v1.union_mut(v2), cap);
                fin_union_mut(items, f1, f2.unwrap(), o);
            } else {
                let items = coll(v1.intersection_mut(v2), cap);
                fin_inter_mut(items, f1, f2.unwrap(), o);
            }
        }
        SetKind::Diff | SetKind::CDiff => {
            let Some((v2, t2)) = nav_ro((&*r).view(), n2) else {
                return noview(o);
            };
            sep(o);
            o.push_str(&t1);
            sep(o);
            o.push_str(&t2);
            if matches!(kind, SetKind::Diff) {
                let items = coll(v1.difference_mut(v2), cap);
                let items = items.into_iter().map(|d| (d.prefix, d.value, d.right)).collect();
                fin_diff_mut(items, f1, o);
            } else {
                let items = coll(v1.covering_difference_mut(v2), cap);
                mut_pairs(items, f1, o);
            }
        }
    }
}

// ---------------------------------------------------------------------------------------------
// driver
// ---------------------------------------------------------------------------------------------

fn tokens(line: &str) -> Vec<&str> {
    line.split(' ').filter(|t| !t.is_empty()).collect()
}

fn run_script<P: PT>(lines: &[&str], w: &mut impl Write) {
    let mut st: State<P> = State::new();
    let mut out = String::with_capacity(256);
    let mut n_ops = 0usize;
    for line in lines {
        n_ops += 1;
        out.clear();
        let toks = tokens(line);
        match catch_unwind(AssertUnwindSafe(|| parse_op::<P>(&toks))) {
            Err(_) => out.push_str("PANIC"),
            Ok(None) => out.push('?'),
            Ok(Some(op)) => {
                // every op adds at most one entry to a map and at most two slots to an arena
                let cap = 4 * n_ops + 16;
                let r = catch_unwind(AssertUnwindSafe(|| exec(&mut st, &op, &mut out, cap)));
                if r.is_err() {
                    sep(&mut out);
                    out.push_str("PANIC");
                }
            }
        }
        out.push('\n');
        w.write_all(out.as_bytes()).unwrap();
        // flushed per line, so that a hang or abort inside a library call can be attributed to
        // the operation it happened in
        w.flush().unwrap();
    }
}

fn dispatch(ty: &str, lines: &[&str], w: &mut impl Write) -> bool {
    match ty {
        "u8" => run_script::<(u8, u8)>(lines, w),
        "u16" => run_script::<(u16, u8)>(lines, w),
        "u32" => run_script::<(u32, u8)>(lines, w),
        "u64" => run_script::<(u64, u8)>(lines, w),
        "u128" => run_script::<(u128, u8)>(lines, w),
        "usize" => run_script::<(usize, u8)>(lines, w),
        "ipv4net" => run_script::<ipnet::Ipv4Net>(lines, w),
        "ipv6net" => run_script::<ipnet::Ipv6Net>(lines, w),
        "ipv4network" => run_script::<ipnetwork::Ipv4Network>(lines, w),
        "ipv6network" => run_script::<ipnetwork::Ipv6Network>(lines, w),
        "ipv4cidr" => run_script::<cidr::Ipv4Cidr>(lines, w),
        "ipv6cidr" => run_script::<cidr::Ipv6Cidr>(lines, w),
        "ipv4inet" => run_script::<cidr::Ipv4Inet>(lines, w),
        "ipv6inet" => run_script::<cidr::Ipv6Inet>(lines, w),
        _ => return false,
    }
    true
}

fn is_s_line(line: &str) -> bool {
    line == "S" || line.starts_with("S ")
}

fn main() {
    let path = match std::env::args().nth(1) {
        Some(p) => p,
        None => {
            eprintln!("usage: run <script-file>");
            std::process::exit(2);
        }
    };
    let text = match std::fs::read_to_string(&path) {
        Ok(t) => t,
        Err(e) => {
            eprintln!("cannot read {}: {}", path, e);
            std::process::exit(2);
        }
    };
    std::panic::set_hook(Box::new(|_| {}));

    let lines: Vec<&str> = text
        .lines()
        .filter(|l| !l.trim().is_empty() && !l.starts_with('#'))
        .collect();

    let stdout = std::io::stdout();
    let mut w = BufWriter::with_capacity(1 << 16, stdout.lock());

    let mut i = 0usize;
    // op lines before the first `S` line belong to no script
    while i < lines.len() && !is_s_line(lines[i]) {
        w.write_all(b"?\n").unwrap();
        i += 1;
    }
    while i < lines.len() {
        let head = tokens(lines[i]);
        let id = head.get(1).copied().unwrap_or("");
        let ty = head.get(2).copied().unwrap_or("");
        writeln!(w, "S {}", id).unwrap();
        w.flush().unwrap();
        let mut j = i + 1;
        while j < lines.len() && !is_s_line(lines[j]) {
            j += 1;
        }
        let body = &lines[i + 1..j];
        if !dispatch(ty, body, &mut w) {
            // unknown prefix type
            for _ in body {
                w.write_all(b"?\n").unwrap();
            }
        }
        // one flush per script: if a later script hangs or aborts the process, the output of
        // the scripts before it is not lost and the orchestrator can tell which one it was
        w.flush().unwrap();
        i = j;
    }
    w.flush().unwrap();
}
