#!/bin/sh
# For every tests/*.txt: run the interpreter, check exit code 0, empty stderr and that the number of
# output lines equals the number of non-empty, non-comment input lines (one per `S` line and op line).
# Usage: tests/check.sh [profile]   (profile = release | checked; default release)
cd "$(dirname "$0")/.." || exit 1
prof="${1:-release}"
bin="target/$prof/run"
fail=0
for f in tests/*.txt; do
    want=$(grep -v -e '^[[:space:]]*$' -e '^#' "$f" | wc -l)
    "$bin" "$f" >target/.check_out.$$ 2>target/.check_err.$$
    rc=$?
    got=$(wc -l <target/.check_out.$$)
    errb=$(wc -c <target/.check_err.$$)
    if [ "$rc" -ne 0 ] || [ "$want" -ne "$got" ] || [ "$errb" -ne 0 ]; then
        echo "FAIL $f: rc=$rc want=$want got=$got stderr_bytes=$errb"; fail=1
    else
        echo "ok   $f: $got lines"
    fi
done
rm -f target/.check_out.$$ target/.check_err.$$
exit $fail
