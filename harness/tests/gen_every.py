#!/usr/bin/env python3
"""Generate tests/t_every.txt: one script per prefix type that uses every op kind, every entry
operation, every navigation step, every mutable-view action, every predicate and every <fn> form.
Prefixes are given as bit strings and left-aligned in the width of the type."""
import os

TYPES = [("u8", 8), ("u16", 16), ("u32", 32), ("u64", 64), ("u128", 128), ("usize", 64),
         ("ipv4net", 32), ("ipv6net", 128), ("ipv4network", 32), ("ipv6network", 128),
         ("ipv4cidr", 32), ("ipv6cidr", 128), ("ipv4inet", 32), ("ipv6inet", 128)]


def script(name, w):
    def p(bits, host=False):
        n = len(bits)
        v = (int(bits, 2) << (w - n)) if n else 0
        if host and n < w:
            v |= 1
        return "%x/%d" % (v, n)

    o = ["S every-%s %s" % (name, name)]
    a = o.append
    # --- build two maps and a set
    for i, b in enumerate(["", "1", "10", "101", "1011", "01", "0100", "0111", "11"]):
        a("ins A %s %d" % (p(b, host=(i % 2 == 1)), i + 1))
    for i, b in enumerate(["1", "101", "1010", "00", "0100", "011"]):
        a("ins B %s %d" % (p(b), 10 * (i + 1)))
    for b in ["1", "10", "0111", "001"]:
        a("sins %s" % p(b, host=True))
    a("obs A"); a("obs B"); a("sobs"); a("shape A"); a("shape B")
    a("arena A"); a("arena B"); a("iters A"); a("iters B"); a("serde A"); a("serde B")
    for b in ["", "1", "10", "100", "1011", "10111", "0", "010", "0101", "111"]:
        a("q A %s" % p(b)); a("q B %s" % p(b, host=True)); a("sq %s" % p(b))
    # --- views
    for nav in [".", "at:%s" % p("1"), "at:%s" % p("0"), "at:%s" % p("100"), "at:%s,l" % p("0"),
                "at:%s,r,r" % p("0"), "sl", "sr", "sl,sl,sl,sl", "l,r,l,r",
                "find:%s,fx:%s,fl:%s" % (p("01"), p("0100"), p("01001")),
                "find:%s,fx:%s,fl:%s,l,r" % (p("001"), p("0"), p("001")),
                "at:%s,find:%s" % (p("010"), p("0")), "at:%s,fl:%s" % (p("10"), p("1011"))]:
        a("view A %s dump" % nav); a("view A %s walk" % nav); a("view B %s dump" % nav)
        a("viewmut A %s info" % nav); a("viewmut B %s ro" % nav)
    # --- set operations
    navs = [(".", "."), ("at:%s" % p("1"), "at:%s" % p("1")), ("at:%s" % p("10"), "at:%s" % p("1")),
            ("at:%s" % p("1"), "at:%s" % p("10")), ("at:%s" % p("0"), "at:%s,l" % p("0")),
            ("sl", "sr"), ("at:%s" % p("001"), "."), (".", "at:%s" % p("001")),
            ("find:%s,l" % p("1"), "fl:%s,r" % p("1010"))]
    for n1, n2 in navs:
        for xy in ["AB", "BA", "AA", "BB"]:
            for k in ["union", "inter", "diff", "cdiff"]:
                a("%s %s %s %s" % (k, xy, n1, n2))
        a("sunion %s %s" % (n1, n2))
    for n1, n2 in navs:
        a("umut AB %s %s +1 +2" % (n1, n2)); a("umut BA %s %s =100 =200" % (n1, n2))
        a("imut AB %s %s =0 +5" % (n1, n2)); a("imut BA %s %s +1 =7" % (n1, n2))
        a("dmut AB %s %s +3" % (n1, n2)); a("dmut BA %s %s =50" % (n1, n2))
        a("cdmut AB %s %s =9" % (n1, n2)); a("cdmut BA %s %s +4" % (n1, n2))
        a("obs A"); a("obs B")
    a("umut AB . . panic +1"); a("umut AB . . +1 panic"); a("imut AB . . +1 panic")
    a("dmut AB . . panic"); a("cdmut AB . . panic"); a("obs A"); a("obs B")
    for nav in [".", "at:%s" % p("1"), "at:%s" % p("10"), "at:%s" % p("0"), "sl", "find:%s,r" % p("0"),
                "at:%s" % p("001")]:
        a("umuts A %s +1 +2" % nav); a("imuts A %s =0 =1" % nav)
        a("dmuts A %s +10" % nav); a("cdmuts A %s =3" % nav)
        a("umuts B %s =5 +2" % nav); a("dmuts B %s panic" % nav)
    a("obs A"); a("obs B")
    # --- mutation through references
    a("getmut A %s +1" % p("1")); a("getmut A %s =5" % p("1", True)); a("getmut A %s panic" % p("1"))
    a("getmut A %s panic" % p("001")); a("getmut B %s +1" % p("001"))
    a("lpmmut A %s +1" % p("10111")); a("lpmmut B %s =3" % p("0001")); a("lpmmut B %s panic" % p("1"))
    a("itermut A +1"); a("itermut B =0"); a("itermut A panic")
    a("valsmut A =10"); a("valsmut B +1"); a("valsmut B panic")
    a("chmut A %s +100" % p("1")); a("chmut A %s =0" % p("00")); a("chmut B %s panic" % p("0"))
    for act in ["set:5", "remove", "remove", "vmut:+1", "vmut:=2", "vmut:panic", "pvmut:+1", "pvmut:panic",
                "itermut:+1", "itermut:=0", "intoiter:+1", "intoiter:=7", "valsmut:+1", "valsmut:panic",
                "set:6", "info", "ro"]:
        a("viewmut A at:%s %s" % (p("10"), act)); a("viewmut B at:%s,l %s" % (p("0"), act))
        a("viewmut A at:%s %s" % (p("100"), act))
    a("obs A"); a("obs B"); a("arena A"); a("arena B")
    # --- entry API
    e = p("1100")
    a("entry A %s" % e)
    a("entry A %s get key getmut:+1 and_modify:+1 vac.key vac.insert:3" % e)
    a("entry A %s get key getmut:+1 getmut:=8 and_modify:=4 get occ.key occ.get occ.getmut:+1 occ.insert:9" % p("1100", True))
    a("entry A %s insert:5 get" % e); a("entry A %s insert:6" % p("1101"))
    a("entry B %s or_insert:1" % e); a("entry B %s or_insert:2" % e)
    a("entry B %s or_insert_with:3" % p("1110")); a("entry B %s or_insert_with:panic" % p("1110"))
    a("entry B %s or_insert_with:panic" % p("1111")); a("entry B %s or_default" % p("1111"))
    a("entry A %s or_default" % p("1111")); a("entry A %s and_modify:panic" % p("1111"))
    a("entry A %s getmut:panic" % p("1111")); a("entry A %s getmut:panic" % p("11111"))
    a("entry A %s vac.insert_with:4 vac.key" % p("000")); a("entry A %s vac.insert_with:panic" % p("0000"))
    a("entry A %s vac.default" % p("0000")); a("entry B %s vac.default" % p("0000"))
    a("entry A %s vac.key" % p("0000")); a("entry A %s occ.key" % p("00001"))
    a("entry A %s occ.getmut:panic" % p("0000")); a("entry A %s occ.remove occ.remove" % p("0000"))
    a("entry A %s occ.get get" % p("000")); a("entry A %s occ.remove occ.key occ.getmut:+1" % p("000"))
    a("entry B %s occ.remove" % p("0000")); a("obs A"); a("obs B"); a("arena A"); a("arena B")
    # --- save / eq / clone / collect / serde
    a("save A"); a("eq A"); a("save B"); a("eq B"); a("clone A"); a("clone B")
    a("collect A 5,3,8,0,2,9,9"); a("obs A"); a("shape A"); a("arena A"); a("eq A")
    a("collect B -"); a("obs B"); a("eq B"); a("serde A"); a("serde B")
    # --- removals
    a("rem A %s" % p("101")); a("rem A %s" % p("101")); a("rem B %s" % p("1", True)); a("eq A")
    a("remk A %s" % p("1")); a("remk A %s" % p("1")); a("remk B %s" % p("00")); a("shape A"); a("arena A")
    a("remc A %s" % p("01")); a("remc B %s" % p("1")); a("remc B %s" % p("0001")); a("shape A"); a("shape B")
    a("arena A"); a("arena B"); a("obs A"); a("obs B")
    # --- retain
    for pred in ["all", "odd", "even", "len<=3", "len>1", "bit0", "nbit1", "cov:%s" % p("1"), "ncov:%s" % p("11")]:
        a("save A"); a("retain A %s 1" % pred); a("obs A"); a("retain A %s -" % pred); a("obs A"); a("arena A")
        a("ins A %s 7" % p("1")); a("ins A %s 8" % p("10")); a("ins A %s 9" % p("0110")); a("ins A %s 10" % p("")); a("ins A %s 11" % p("111"))
    a("retain B none 0"); a("retain B none -"); a("obs B"); a("arena B")
    # --- set
    a("ssave"); a("seq"); a("srem %s" % p("10")); a("srem %s" % p("10")); a("seq")
    a("sremk %s" % p("1")); a("sremk %s" % p("1")); a("sobs"); a("sunion . .")
    a("sins %s" % p("0110")); a("sins %s" % p("01101")); a("sins %s" % p("")); a("sobs")
    for pred in ["len<=4", "len>0", "bit1", "nbit0", "cov:%s" % p("0"), "ncov:%s" % p("0111"), "all"]:
        a("sretain %s" % pred); a("sobs")
    a("sremc %s" % p("01")); a("sobs"); a("sretain none"); a("sobs"); a("sins %s" % p("1")); a("sclear"); a("sobs"); a("seq")
    # --- algebra
    for x, y, i in [("", "", 0), ("1", "10", 0), ("10", "11", 1), ("1011", "10", 3), ("0", "1", 0)]:
        a("alg %s %s %d" % (p(x, True), p(y), i)); a("alg %s %s %d" % (p(y), p(x, True), i))
    a("alg %x/%d %x/%d %d" % ((1 << w) - 1, w, (1 << w) - 1, w - 1, w - 1))
    a("alg %x/%d 0/0 %d" % ((1 << w) - 1, w, w))
    a("alg 0/0 %x/%d 255" % ((1 << w) - 2, w))
    a("clear A"); a("clear B"); a("obs A"); a("arena A"); a("eq A")
    # --- lines that must print `?`
    a("nosuchop A"); a("ins A %s" % p("1")); a("ins Z %s 1" % p("1")); a("umut AA . . +1 +1"); a("sretain even")
    a("ins A %x/0 1" % (1 << w)); a("view A at:%s,x dump" % p("1")); a("getmut A %s *3" % p("1"))
    return o


def main():
    here = os.path.dirname(os.path.abspath(__file__))
    lines = ["# generated by tests/gen_every.py"]
    for name, w in TYPES:
        lines += script(name, w)
    with open(os.path.join(here, "t_every.txt"), "w") as f:
        f.write("\n".join(lines) + "\n")


main()
