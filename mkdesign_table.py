#!/usr/bin/env python3
"""Regenerates the generated blocks of DESIGN.md (between <!-- X-BEGIN --> / <!-- X-END --> markers):
BOUNDS (per-property obligations and correspondence sizes, from props.py and evidence/) and
SEEDED (the seeded-change matrix, from seeded/*/result.json and meta.json)."""
import json, os, re, sys
HERE = os.path.dirname(os.path.abspath(__file__))
sys.path.insert(0, HERE)
import props

def bounds():
    rows = ['| id | theorems in `Properties/Cnn.v` | script profiles: quick / thorough count (build profiles) | last quick run: scripts / steps / non-trivial / wall |',
            '|---|---|---|---|']
    for pid in sorted(props.PROPS):
        P = props.PROPS[pid]
        ev = {}
        try:
            ev = json.load(open(os.path.join(HERE, 'evidence', pid + '.json')))
        except Exception:
            pass
        cov = ev.get('coverage', {})
        prof = '; '.join('`%s` %d / %d%s' % (p[0], p[1], p[2], (' (%s)' % '+'.join(p[3])) if len(p) > 3 else '') for p in P.profiles)
        if len(P.build_profiles) > 1:
            prof += ' — each in ' + ' and '.join(P.build_profiles)
        extra = ''
        if cov.get('compile_fail_programs'):
            extra = '; %d + %d compile-fail/pass programs' % (cov['compile_fail_programs'], cov['compile_pass_programs'])
        rows.append('| %s | %s | %s%s | %s / %s / %s / %ss |' % (pid, cov.get('obligations', '?'), prof, extra, cov.get('programs', '?'),
                                                              cov.get('evaluations', '?'), cov.get('distinct_nontrivial', '?'), ev.get('wall_s', '?')))
    return '\n'.join(rows)

def seeded():
    d = os.path.join(HERE, 'seeded')
    ids = sorted(x for x in os.listdir(d) if os.path.exists(os.path.join(d, x, 'meta.json')))
    rows = ['| seeded change | breaks | what it is (short) | needs to manifest (short) | checks that raise a violation |', '|---|---|---|---|---|']
    for i in ids:
        m = json.load(open(os.path.join(d, i, 'meta.json')))
        r = {}
        try:
            r = json.load(open(os.path.join(d, i, 'result.json')))
        except Exception:
            pass
        def short(t, n):
            t = ' '.join((t or '').split())
            t = t.replace('|', '/')
            return t[:n] + ('…' if len(t) > n else '')
        caught = r.get('caught_by') or []
        tgt = m.get('breaks_property')
        cs = ', '.join(('**%s**' % c) if c == tgt else c for c in caught) or '— (missed)'
        rows.append('| `%s` | %s | %s | %s | %s |' % (i, tgt, short(m.get('summary'), 230), short(m.get('needs'), 200), cs))
    return '\n'.join(rows)

def asbuilt():
    n = json.load(open(os.path.join(HERE, 'manifest_notes.json')))
    return '\n'.join('* **C%02d.** %s' % (i, n['C%02d' % i]['text']) for i in range(1, 21))


def main():
    p = os.path.join(HERE, 'DESIGN.md')
    s = open(p).read()
    for name, fn in (('BOUNDS', bounds), ('SEEDED', seeded), ('ASBUILT', asbuilt)):
        b, e = '<!-- %s-BEGIN -->' % name, '<!-- %s-END -->' % name
        if b in s and e in s:
            s = s[:s.index(b) + len(b)] + '\n' + fn() + '\n' + s[s.index(e):]
    open(p, 'w').write(s)

if __name__ == '__main__':
    main()
