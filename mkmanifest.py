#!/usr/bin/env python3
"""Regenerates MANIFEST.json from props.py and the theorem files that exist."""
import json, os, sys
HERE = os.path.dirname(os.path.abspath(__file__))
sys.path.insert(0, HERE)
import props

NOTES = json.load(open(os.path.join(HERE, 'manifest_notes.json')))
checks = []
for pid in sorted(props.PROPS):
    P = props.PROPS[pid]
    has_thm = os.path.exists(os.path.join(HERE, 'coq', 'theories', 'Properties', pid + '.v'))
    n = NOTES.get(pid, {})
    cat = 'proof' if has_thm else 'translation_validation'
    checks.append(dict(
        property_id=pid,
        quick_cmd='./check %s --tier quick' % pid,
        thorough_cmd='./check %s --tier thorough' % pid,
        evidence_file='/verif/evidence/%s.json' % pid,
        replay_cmd_template='./check %s --replay {path}' % pid,
        engine='coq-model+correspondence',
        level_claimed=dict(category=cat, text=n.get('text', ''), design_ref=n.get('design_ref', 'DESIGN.md section 5')),
        level_note=n.get('note', ''),
        technique=n.get('technique', 'machine-checked Coq proof about a hand-written model, tied to the code by a differential correspondence check (extracted OCaml model vs Rust harness)'),
    ))
man = dict(
    version=1,
    setup_cmd='./check --setup',
    hooks=dict(guard='verif-hooks', enable='cargo feature `verif-hooks` of prefix-trie, enabled by /verif/harness/Cargo.toml on its path dependency /repo',
               baseline_off_cmd='cd /repo && cargo test --workspace --no-fail-fast --offline',
               source_commits=NOTES['_hooks']['source_commits'], add_only=True),
    engines=[dict(name='coq-model+correspondence', path='/verif/check',
                  serves_properties=sorted(props.PROPS),
                  kind_free_text='Coq 8.16 development (coq/theories) with theorems per property in coq/theories/Properties; extracted OCaml model (ocaml/driver) and Rust harness (harness/) run on the same generated scripts; Python orchestrator')],
    checks=checks,
    notes=NOTES['_notes'],
    not_applicable=NOTES['_not_applicable'],
)
json.dump(man, open(os.path.join(HERE, 'MANIFEST.json'), 'w'), indent=1)
print('wrote MANIFEST.json with %d checks' % len(checks))
