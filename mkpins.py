#!/usr/bin/env python3
"""Statement pinning.  Writes coq/pins.json: for every theorem of every Properties/Cnn.v the SHA-256
of its STATEMENT (the text from `Theorem name` up to the `Proof.` that follows, comments stripped,
whitespace normalised), and the hash of the section preamble of the file (the `Variables`,
`Hypothesis` and `Notation` lines, which give the statements their meaning).  `check` recomputes the
hashes on every run: a theorem whose statement differs from the pinned one, a pinned theorem that
disappeared, or a changed preamble is reported as a broken proof obligation.  Re-pinning is a
deliberate act: run this script and commit coq/pins.json together with the changed statement."""
import hashlib, json, os, re, sys
HERE = os.path.dirname(os.path.abspath(__file__))
PROPS = os.path.join(HERE, 'coq', 'theories', 'Properties')


def strip_comments(txt):
    out, depth, i = [], 0, 0
    while i < len(txt):
        if txt.startswith('(*', i):
            depth += 1; i += 2
        elif txt.startswith('*)', i) and depth > 0:
            depth -= 1; i += 2
        else:
            if depth == 0:
                out.append(txt[i])
            i += 1
    return ''.join(out)


def norm(s):
    return ' '.join(s.split())


def statements(path):
    src = strip_comments(open(path).read())
    res = {}
    for m in re.finditer(r'\b(Theorem|Lemma|Corollary)\s+([A-Za-z0-9_\']+)(.*?)\bProof\b', src, re.S):
        res[m.group(2)] = hashlib.sha256(norm(m.group(3)).encode()).hexdigest()[:24]
    pre = [norm(l) for l in src.splitlines()
           if re.match(r'\s*(Variables?|Hypothes[ie]s|Notation|Context|Definition|Fixpoint|From|Require|Import)\b', l)]
    res['__preamble__'] = hashlib.sha256('\n'.join(pre).encode()).hexdigest()[:24]
    return res


def compute():
    pins = {}
    for f in sorted(os.listdir(PROPS)):
        if f.endswith('.v'):
            pins[f[:-2]] = statements(os.path.join(PROPS, f))
    return pins


if __name__ == '__main__':
    pins = compute()
    json.dump(pins, open(os.path.join(HERE, 'coq', 'pins.json'), 'w'), indent=0, sort_keys=True)
    print('pinned %d statements in %d files' % (sum(len(v) - 1 for v in pins.values()), len(pins)))
