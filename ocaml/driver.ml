(* Interpreter of the script language of /verif/SCRIPT.md over the Coq model extracted to OCaml.
   Hand-written glue: parsing, printing, closure families, navigation.  Everything that decides a
   result is a call into the extracted modules (Inst, Trie, Views, SetOps, PrefixN). *)
open BinNums
open Datatypes

exception Panic
exception Stop (* output line is complete *)

(* ---------- numbers ---------- *)
let rec pos_of_int n =
  if n = 1 then Coq_xH
  else if n land 1 = 0 then Coq_xO (pos_of_int (n lsr 1))
  else Coq_xI (pos_of_int (n lsr 1))
let n_of_int n = if n = 0 then N0 else Npos (pos_of_int n)
let rec int_of_pos = function
  | Coq_xH -> 1 | Coq_xO p -> 2 * int_of_pos p | Coq_xI p -> 2 * int_of_pos p + 1
let int_of_n = function N0 -> 0 | Npos p -> int_of_pos p
let int_of_z = function Z0 -> 0 | Zpos p -> int_of_pos p | Zneg p -> - (int_of_pos p)
let rec nat_of_int n = if n <= 0 then O else S (nat_of_int (n - 1))
let rec int_of_nat = function O -> 0 | S n -> 1 + int_of_nat n

let hexval c =
  match c with
  | '0'..'9' -> Char.code c - 48
  | 'a'..'f' -> Char.code c - 87
  | 'A'..'F' -> Char.code c - 55
  | _ -> failwith "hex"
let n_of_hex s =
  let n = ref N0 in
  String.iter (fun c ->
    let d = hexval c in
    for b = 3 downto 0 do
      let bit = (d lsr b) land 1 = 1 in
      n := (match !n, bit with
            | N0, false -> N0
            | N0, true -> Npos Coq_xH
            | Npos p, false -> Npos (Coq_xO p)
            | Npos p, true -> Npos (Coq_xI p))
    done) s;
  !n
let hex_of_n n =
  match n with
  | N0 -> "0"
  | Npos p ->
    (* little-endian bits *)
    let rec bits p acc = match p with
      | Coq_xH -> Stdlib.List.rev (true :: acc)
      | Coq_xO q -> bits q (false :: acc)
      | Coq_xI q -> bits q (true :: acc) in
    let le = Array.of_list (bits p []) in
    let nb = Array.length le in
    let nd = (nb + 3) / 4 in
    let buf = Bytes.create nd in
    for d = 0 to nd - 1 do
      let v = ref 0 in
      for b = 0 to 3 do
        let i = d * 4 + b in
        if i < nb && le.(i) then v := !v lor (1 lsl b)
      done;
      Bytes.set buf (nd - 1 - d) "0123456789abcdef".[!v]
    done;
    Bytes.to_string buf

(* ---------- types ---------- *)
let type_info = function
  | "u8" -> (8, PrefixN.Generic) | "u16" -> (16, PrefixN.Generic) | "u32" -> (32, PrefixN.Generic)
  | "u64" -> (64, PrefixN.Generic) | "u128" -> (128, PrefixN.Generic) | "usize" -> (64, PrefixN.Generic)
  | "ipv4net" -> (32, PrefixN.Ipnet) | "ipv6net" -> (128, PrefixN.Ipnet)
  | "ipv4network" -> (32, PrefixN.Generic) | "ipv6network" -> (128, PrefixN.Generic)
  | "ipv4cidr" -> (32, PrefixN.Masking) | "ipv6cidr" -> (128, PrefixN.Masking)
  | "ipv4inet" -> (32, PrefixN.Generic) | "ipv6inet" -> (128, PrefixN.Generic)
  | s -> failwith ("type " ^ s)
let serde_supported = function
  | "u8" | "u16" | "u32" | "u64" | "u128" | "usize" | "ipv4net" | "ipv6net" -> true
  | _ -> false

let w = ref (n_of_int 8)
let fl = ref PrefixN.Generic
let tyname = ref "u8"

type pfx = PrefixN.pfx

(* ---------- printing ---------- *)
let pp (p : pfx) = hex_of_n p.PrefixN.repr ^ "/" ^ string_of_int (int_of_n p.PrefixN.plen)
let popt = function None -> "-" | Some x -> string_of_int x
let ppair (p, v) = pp p ^ "=" ^ string_of_int v
let ppair_opt = function None -> "-" | Some x -> ppair x
let ppfx_opt = function None -> "-" | Some p -> pp p
let plist f l = "[" ^ String.concat "," (Stdlib.List.map f l) ^ "]"
let pbool b = if b then "1" else "0"

let parse_pfx s : pfx =
  match String.index_opt s '/' with
  | None -> failwith ("pfx " ^ s)
  | Some i ->
    let r = n_of_hex (String.sub s 0 i) in
    let l = n_of_int (int_of_string (String.sub s (i + 1) (String.length s - i - 1))) in
    PrefixN.from_repr_len !w !fl r l

(* ---------- closure families ---------- *)
type fn = Add of int | Const of int | FPanic
let parse_fn s =
  if s = "panic" then FPanic
  else if s.[0] = '+' then Add (int_of_string (String.sub s 1 (String.length s - 1)))
  else if s.[0] = '=' then Const (int_of_string (String.sub s 1 (String.length s - 1)))
  else failwith ("fn " ^ s)
let apply_fn f i old = match f with Add n -> old + n | Const n -> n + i | FPanic -> raise Panic

let starts s pre = String.length s >= String.length pre && String.sub s 0 (String.length pre) = pre
let after s pre = String.sub s (String.length pre) (String.length s - String.length pre)

let parse_pred (s : string) : pfx -> int -> bool =
  if s = "all" then fun _ _ -> true
  else if s = "none" then fun _ _ -> false
  else if s = "even" then fun _ v -> v land 1 = 0
  else if s = "odd" then fun _ v -> v land 1 = 1
  else if starts s "len<=" then let n = int_of_string (after s "len<=") in fun p _ -> int_of_n p.PrefixN.plen <= n
  else if starts s "len>" then let n = int_of_string (after s "len>") in fun p _ -> int_of_n p.PrefixN.plen > n
  else if starts s "nbit" then let i = n_of_int (int_of_string (after s "nbit")) in fun p _ -> not (PrefixN.is_bit_set !w p i)
  else if starts s "bit" then let i = n_of_int (int_of_string (after s "bit")) in fun p _ -> PrefixN.is_bit_set !w p i
  else if starts s "ncov:" then let c = parse_pfx (after s "ncov:") in fun p _ -> not (PrefixN.contains !w !fl c p)
  else if starts s "cov:" then let c = parse_pfx (after s "cov:") in fun p _ -> PrefixN.contains !w !fl c p
  else failwith ("pred " ^ s)

(* ---------- state ---------- *)
type imap = (pfx, int) Trie.pmap
type smap = (pfx, unit) Trie.pmap
let mA : imap ref = ref Inst.t_empty
let mB : imap ref = ref Inst.t_empty
let sA : imap ref = ref Inst.t_empty
let sB : imap ref = ref Inst.t_empty
let mT : smap ref = ref Inst.t_empty
let sT : smap ref = ref Inst.t_empty

(* arena-level model of map A (Arena.v), kept in step with the tree model as long as only
   operations it transcribes (insert / remove / remove_keep_tree) touch A; None = out of step *)
let aA : (pfx, int) Arena.amap option ref = ref (Some InstArena.t_a_empty)

let mapref = function "A" -> mA | "B" -> mB | s -> failwith ("map " ^ s)
let saveref = function "A" -> sA | "B" -> sB | s -> failwith ("map " ^ s)

let root (m : ('a, 'b) Trie.pmap) = m.Trie.root
let set_root (m : ('a, 'b) Trie.pmap) t = { Trie.root = t; Trie.al = m.Trie.al }
let drop3 l = Stdlib.List.map (fun ((_, p), v) -> (p, v)) l
let ieq (a : int) (b : int) = a = b
let ueq () () = true

let len_str (m : ('a, 'b) Trie.pmap) =
  let c = int_of_z m.Trie.al.Trie.count in
  Printf.sprintf "%Lu" (Int64.of_int c)
let is_empty_str m = pbool (Trie.is_empty m)

(* writes through collected references: items in yield order with slot ids *)
let writes f (items : ((coq_N * pfx) * int) list) : (coq_N * int) list =
  Stdlib.List.mapi (fun i ((id, _), old) -> (id, apply_fn f i old)) items

(* ---------- navigation ---------- *)
type step = At of pfx | Find of pfx | Fx of pfx | Fl of pfx | L | R | Sl | Sr
let parse_nav s : step list =
  if s = "." then []
  else
    Stdlib.List.map (fun t ->
      if t = "l" then L else if t = "r" then R else if t = "sl" then Sl else if t = "sr" then Sr
      else if starts t "at:" then At (parse_pfx (after t "at:"))
      else if starts t "find:" then Find (parse_pfx (after t "find:"))
      else if starts t "fx:" then Fx (parse_pfx (after t "fx:"))
      else if starts t "fl:" then Fl (parse_pfx (after t "fl:"))
      else failwith ("nav " ^ t)) (String.split_on_char ',' s)

let trace_str b = if Buffer.length b = 0 then "-" else Buffer.contents b

(* read-only: returns None for NOVIEW *)
let nav_ro (t : (pfx, 'v) Trie.tree) (steps : step list) : (string * (pfx, 'v) Views.view) option =
  let tr = Buffer.create 8 in
  let rec go v = function
    | [] -> Some (trace_str tr, v)
    | s :: rest ->
      let soft r = (match r with
          | Some v' -> Buffer.add_char tr 'o'; go v' rest
          | None -> Buffer.add_char tr 'e'; go v rest) in
      let hard r = (match r with Some v' -> go v' rest | None -> None) in
      (match s with
       | At p -> hard (Inst.t_v_find !w !fl v p)
       | Find p -> soft (Inst.t_v_find !w !fl v p)
       | Fx p -> soft (Inst.t_v_find_exact !w !fl v p)
       | Fl p -> soft (Inst.t_v_find_lpm !w !fl v p)
       | L -> soft (Inst.t_v_left !w v)
       | R -> soft (Inst.t_v_right !w v)
       | Sl -> hard (Inst.t_v_left !w v)
       | Sr -> hard (Inst.t_v_right !w v))
  in
  go (Views.view_of t) steps

let nav_mut (t : (pfx, 'v) Trie.tree) (steps : step list) : (string * pfx Views.vmut) option =
  let tr = Buffer.create 8 in
  let rec go v = function
    | [] -> Some (trace_str tr, v)
    | s :: rest ->
      let soft r = (match r with
          | Some v' -> Buffer.add_char tr 'o'; go v' rest
          | None -> Buffer.add_char tr 'e'; go v rest) in
      let hard r = (match r with Some v' -> go v' rest | None -> None) in
      (match s with
       | At p -> hard (Inst.t_vm_find !w !fl t v p)
       | Find p -> soft (Inst.t_vm_find !w !fl t v p)
       | Fx p -> soft (Inst.t_vm_find_exact !w !fl t v p)
       | Fl p -> soft (Inst.t_vm_find_lpm !w !fl t v p)
       | L -> soft (Inst.t_vm_left !w t v)
       | R -> soft (Inst.t_vm_right !w t v)
       | Sl -> hard (fst (Inst.t_vm_split !w t v))
       | Sr -> hard (snd (Inst.t_vm_split !w t v)))
  in
  go Views.vm_root steps

let rec shape (v : (pfx, int) Views.view) : string =
  let side = function None -> "." | Some v' -> shape v' in
  "(" ^ pp (Inst.t_v_prefix v) ^ " " ^ popt (Views.v_value v) ^ " "
  ^ side (Inst.t_v_left !w v) ^ " " ^ side (Inst.t_v_right !w v) ^ ")"

let get_some = function Some x -> x | None -> failwith "machine out of fuel"

(* ---------- the interpreter ---------- *)
let out = Buffer.create 256
let add s = Buffer.add_string out s
let addsp s = if Buffer.length out > 0 then Buffer.add_char out ' '; Buffer.add_string out s

let cmp_call ((p1 : pfx), v1) ((p2 : pfx), v2) =
  let c = compare (int_of_n p1.PrefixN.plen) (int_of_n p2.PrefixN.plen) in
  if c <> 0 then c else
    match BinNat.N.compare p1.PrefixN.repr p2.PrefixN.repr with
    | Lt -> -1 | Gt -> 1 | Eq -> compare v1 v2

let permute (rs : int list) (l : 'a list) : 'a list =
  let rem = ref l and rs = ref rs and acc = ref [] in
  while !rem <> [] do
    let r = (match !rs with [] -> 0 | x :: t -> rs := t; x) in
    let n = Stdlib.List.length !rem in
    let i = r mod n in
    let x = Stdlib.List.nth !rem i in
    rem := Stdlib.List.filteri (fun j _ -> j <> i) !rem;
    acc := x :: !acc
  done;
  Stdlib.List.rev !acc

let do_retain (type v) (m : (pfx, v) Trie.pmap ref) (pred : pfx -> v -> bool) (k : int option)
    (cmp : (pfx * v) -> (pfx * v) -> int) (ppc : (pfx * v) -> string) =
  let f n p x =
    (match k with Some k when int_of_nat n = k -> None | _ -> Some (pred p x)) in
  let ((m', panicked), calls) = Inst.t_retain f !m in
  m := m';
  let calls = Stdlib.List.sort cmp calls in
  add ("calls=" ^ plist ppc calls ^ " panicked=" ^ pbool panicked)

(* Entry API: the handle protocol is the Coq state machine EntryApi.entry_chain (extracted);
   the driver only parses the actions and prints the tokens. *)
let parse_eact (op : string) : int EntryApi.eact =
  let arg pre = after op pre in
  let wfun a = (let f = parse_fn a in fun old -> apply_fn f 0 old) in
  let optv a = if a = "panic" then None else Some (int_of_string a) in
  if op = "get" then EntryApi.EGet
  else if starts op "getmut:" then EntryApi.EGetMut (wfun (arg "getmut:"))
  else if op = "key" then EntryApi.EKey
  else if starts op "insert:" then EntryApi.EInsert (int_of_string (arg "insert:"))
  else if starts op "or_insert_with:" then EntryApi.EOrInsertWith (optv (arg "or_insert_with:"))
  else if starts op "or_insert:" then EntryApi.EOrInsert (int_of_string (arg "or_insert:"))
  else if op = "or_default" then EntryApi.EOrDefault 0
  else if starts op "and_modify:" then
    (let a = arg "and_modify:" in EntryApi.EAndModify (if a = "panic" then None else Some (wfun a)))
  else if op = "occ.key" then EntryApi.OccKey
  else if op = "occ.get" then EntryApi.OccGet
  else if starts op "occ.getmut:" then EntryApi.OccGetMut (wfun (arg "occ.getmut:"))
  else if starts op "occ.insert:" then EntryApi.OccInsert (int_of_string (arg "occ.insert:"))
  else if op = "occ.remove" then EntryApi.OccRemove
  else if op = "vac.key" then EntryApi.VacKey
  else if starts op "vac.insert_with:" then EntryApi.VacInsertWith (optv (arg "vac.insert_with:"))
  else if starts op "vac.insert:" then EntryApi.VacInsert (int_of_string (arg "vac.insert:"))
  else if op = "vac.default" then EntryApi.VacDefault 0
  else failwith ("entry action " ^ op)

let entry_op (m : imap ref) (q : pfx) (ops : string list) =
  let acts = Stdlib.List.map parse_eact ops in
  let (m', toks) = InstEntry.t_entry_chain !w !fl !m q acts in
  m := m';
  Stdlib.List.iter (fun t ->
      addsp (match t with
          | EntryApi.TVal o -> popt o
          | EntryApi.TPfx p -> pp p
          | EntryApi.TOk -> "ok"
          | EntryApi.TWrongVariant -> "WV"
          | EntryApi.TPanic -> "PANIC")) toks

(* ---------- C14: exclusivity of mutable access (mirrors harness alias / par) ---------- *)
let rec nodup = function [] -> true | x :: r -> (not (Stdlib.List.mem x r)) && nodup r
let same_set a b =
  Stdlib.List.for_all (fun x -> Stdlib.List.mem x b) a && Stdlib.List.for_all (fun x -> Stdlib.List.mem x a) b

(* slot of the view's own value (value_mut), if any *)
let own_slot t (v : pfx Views.vmut) =
  match v.Views.mvirt with
  | Some _ -> None
  | None -> (match Views.vm_tree t v with
      | Trie.Node (i, _, Some _, _, _) -> Some i
      | _ -> None)

let rec split_slots t (v : pfx Views.vmut) (acc : coq_N list ref) =
  (match own_slot t v with Some i -> acc := i :: !acc | None -> ());
  let (l, r) = Inst.t_vm_split !w t v in
  (match l with Some l -> split_slots t l acc | None -> ());
  (match r with Some r -> split_slots t r acc | None -> ())

(* `alias` and `par`: the model side is ParModel.alias_report / par_jobs / par_result (extracted
   Coq, theorems alias_report_true, par_schedule_independent, par_jobs_cover); the driver only
   prints.  The hand-written functions above (own_slot, split_slots) are kept as a cross-check:
   a disagreement with the extracted definitions aborts the run. *)
let rec nat_of_int n = if n <= 0 then Datatypes.O else Datatypes.S (nat_of_int (n - 1))

let do_alias (m : imap ref) =
  let t = root !m in
  let ((((n, b1), b2), b3), b4) = InstPar.t_alias_report !w !fl t in
  let acc = ref [] in
  split_slots t Views.vm_root acc;
  let slot ((i, _), _) = i in
  let it = Stdlib.List.map slot (Inst.t_iter_mut_items t) in
  if (nodup !acc && same_set !acc it) <> (b2 && b3) then failwith "alias: extracted model and driver cross-check disagree";
  add ("n=" ^ string_of_int (int_of_nat n) ^ " iter=" ^ pbool b1 ^ " vals=1"
       ^ " split=" ^ pbool b2 ^ " cover=" ^ pbool b3 ^ " sets=" ^ pbool b4)

let do_par (m : imap ref) (k : int) =
  let t0 = root !m in
  let wf i x = 3 * x + int_of_nat i and sf x = 3 * x + 7 in
  let (jobs, _) = InstPar.t_par_jobs !w sf (nat_of_int k) t0 in
  m := set_root !m (InstPar.t_par_result !w wf sf (nat_of_int k) t0);
  add ("jobs=" ^ string_of_int (Stdlib.List.length jobs))

(* items of the mutable set operations *)
let idv = function None -> "-" | Some (_, x) -> string_of_int x

let two_maps xy = (mapref (String.make 1 xy.[0]), mapref (String.make 1 xy.[1]))


(* run the arena-level operation next to the tree-level one; by ArenaThm.{insert,remove,
   remove_keep_tree}_sim the outputs agree and no Panic/OutOfFuel occurs: a disagreement aborts *)
let arena_step (f : (pfx, int) Arena.amap -> ((pfx, int) Arena.amap * int option) Arena.res) (o_tree : int option) =
  match !aA with
  | None -> ()
  | Some am ->
    (match f am with
     | Arena.Ok (am', o) ->
       if o <> o_tree then failwith "arena model and tree model disagree on an output";
       aA := Some am'
     | _ -> failwith "arena model panicked or ran out of fuel")


let arena_apply (f : (pfx, int) Arena.amap -> (pfx, int) Arena.amap Arena.res) =
  match !aA with
  | None -> ()
  | Some am ->
    (match f am with
     | Arena.Ok am' -> aA := Some am'
     | _ -> failwith "arena model panicked or ran out of fuel")

let arenax_line () =
  match !aA with
  | None -> add "unsynced"
  | Some am ->
    let optn = function None -> "-" | Some i -> string_of_int (int_of_n i) in
    add ("alen=" ^ string_of_int (Stdlib.List.length am.Arena.tbl)
         ^ " count=" ^ Printf.sprintf "%Lu" (Int64.of_int (int_of_z am.Arena.acount))
         ^ " free=" ^ plist (fun i -> string_of_int (int_of_n i)) (Stdlib.List.rev am.Arena.afree)
         ^ " slots=" ^ plist (fun n -> optn n.Arena.nleft ^ ":" ^ optn n.Arena.nright ^ ":"
                                         ^ (match n.Arena.nval with Some _ -> "1" | None -> "0")) am.Arena.tbl)

let keeps_arena_sync = ["ins"; "rem"; "remk"; "clear"; "remc"; "retain"; "getmut"; "viewmut";
                        "obs"; "q"; "shape"; "arena"; "arenax"; "iters"; "view"; "alg";
                        "sins"; "srem"; "sremk"; "sremc"; "sclear"; "ssave"; "sretain"; "seq"; "sobs"; "sshape"; "sviewat"; "sfromlist"; "sq"; "save"; "eq"]
let exec (toks : string list) =
  (match toks with
   | op :: x :: _ when not (Stdlib.List.mem op keeps_arena_sync) && (x = "A" || (String.length x = 2 && String.contains x 'A')) -> aA := None
   | _ -> ());
  match toks with
  | ["ins"; x; p; v] ->
    let m = mapref x in
    let (m', o) = Inst.t_insert !w !fl !m (parse_pfx p) (int_of_string v) in
    if x = "A" then arena_step (fun am -> InstArena.t_a_insert !w !fl am (parse_pfx p) (int_of_string v)) o;
    m := m'; add (popt o)
  | ["rem"; x; p] ->
    let m = mapref x in
    let (m', o) = Inst.t_remove !w !fl !m (parse_pfx p) in
    if x = "A" then arena_step (fun am -> InstArena.t_a_remove !w !fl am (parse_pfx p)) o;
    m := m'; add (popt o)
  | ["remk"; x; p] ->
    let m = mapref x in
    let (m', o) = Inst.t_remove_keep_tree !w !fl !m (parse_pfx p) in
    if x = "A" then arena_step (fun am -> InstArena.t_a_remove_keep_tree !w !fl am (parse_pfx p)) o;
    m := m'; add (popt o)
  | ["remc"; x; p] ->
    let m = mapref x in
    if x = "A" then arena_apply (fun am -> InstArena.t_a_remove_children !w !fl am (parse_pfx p));
    m := Inst.t_remove_children !w !fl !m (parse_pfx p); add "ok"
  | ["retain"; x; pred; k] ->
    let m = mapref x in
    let k = if k = "-" then None else Some (int_of_string k) in
    (if x = "A" then
       let pr = parse_pred pred in
       let f n p v = (match k with Some k when int_of_nat n = k -> None | _ -> Some (pr p v)) in
       let ((_, pan_t), calls_t) = Inst.t_retain f !mA in
       match !aA with
       | None -> ()
       | Some am ->
         (match InstArena.t_a_retain f am with
          | Arena.Ok ((am', pan_a), calls_a) ->
            if pan_a <> pan_t || calls_a <> calls_t then failwith "arena retain and tree retain disagree";
            aA := Some am'
          | _ -> failwith "arena model panicked or ran out of fuel"));
    do_retain m (parse_pred pred) k cmp_call ppair
  | ["clear"; x] ->
    if x = "A" then arena_apply (fun am -> Arena.Ok (InstArena.t_a_clear am));
    let m = mapref x in m := Inst.t_clear !m; add "ok"
  | ["arenax"; x] -> if x = "A" then arenax_line () else add "?"
  | ["alias"; x] -> if x = "A" then do_alias mA else add "?"
  | ["par"; x; k] -> if x = "A" then do_par mA (min 6 (int_of_string k)) else add "?"
  | ["collect"; x; rs] ->
    let m = mapref x in
    let rs = if rs = "-" then [] else Stdlib.List.map int_of_string (String.split_on_char ',' rs) in
    let es = drop3 (Inst.t_into_iter_items (root !m)) in
    m := Inst.t_from_list !w !fl (permute rs es); add "ok"
  | ["clone"; x] ->
    let m = mapref x in
    add ("eq=" ^ pbool (Inst.t_map_eq ieq (root !m) (root !m)))
  | ["save"; x] -> (saveref x) := !(mapref x); add "ok"
  | ["eq"; x] ->
    let a = root !(mapref x) and b = root !(saveref x) in
    add (pbool (Inst.t_map_eq ieq a b) ^ " " ^ pbool (Inst.t_map_eq ieq b a))
  | ["getmut"; x; p; f] ->
    let m = mapref x in
    let q = parse_pfx p and f = parse_fn f in
    (match Inst.t_get !w !fl (root !m) q with
     | None -> add "-"
     | Some old -> let nv = apply_fn f 0 old in
       if x = "A" then arena_apply (fun am -> InstArena.t_a_get_mut !w !fl am q (fun _ -> nv));
       m := Inst.t_update_value !w !fl !m q (fun _ -> nv); add (string_of_int old))
  | ["lpmmut"; x; p; f] ->
    let m = mapref x in
    let q = parse_pfx p and f = parse_fn f in
    (match Inst.t_get_lpm_mut !w !fl (root !m) q with
     | None -> add "-"
     | Some ((id, sp), old) ->
       m := set_root !m (Trie.write_ids (root !m) [(id, apply_fn f 0 old)]);
       add (ppair (sp, old)))
  | ["itermut"; x; f] ->
    let m = mapref x in
    let items = Inst.t_iter_mut_items (root !m) in
    m := set_root !m (Trie.write_ids (root !m) (writes (parse_fn f) items));
    add (plist ppair (drop3 items))
  | ["valsmut"; x; f] ->
    let m = mapref x in
    let items = Inst.t_iter_mut_items (root !m) in
    m := set_root !m (Trie.write_ids (root !m) (writes (parse_fn f) items));
    add (plist (fun (_, v) -> string_of_int v) (drop3 items))
  | ["chmut"; x; p; f] ->
    let m = mapref x in
    let items = Inst.t_children_mut !w !fl (root !m) (parse_pfx p) in
    m := set_root !m (Trie.write_ids (root !m) (writes (parse_fn f) items));
    add (plist ppair (drop3 items))
  | "entry" :: x :: p :: ops -> entry_op (mapref x) (parse_pfx p) ops
  | ["shape"; x] -> add (shape (Views.view_of (root !(mapref x))))
  | ["view"; x; nav; act] ->
    (match nav_ro (root !(mapref x)) (parse_nav nav) with
     | None -> add "NOVIEW"
     | Some (tr, v) ->
       if act = "walk" then add (tr ^ " " ^ shape v)
       else begin
         let items = drop3 (Views.v_iter v) in
         let side o = (match o with None -> "-" | Some v' -> pp (Inst.t_v_prefix v')) in
         add (tr ^ " pfx=" ^ pp (Inst.t_v_prefix v) ^ " val=" ^ popt (Views.v_value v)
              ^ " pv=" ^ ppair_opt (Views.v_prefix_value v)
              ^ " iter=" ^ plist ppair items
              ^ " keys=" ^ plist (fun (p, _) -> pp p) items
              ^ " vals=" ^ plist (fun (_, v) -> string_of_int v) items
              ^ " l=" ^ side (Inst.t_v_left !w v) ^ " r=" ^ side (Inst.t_v_right !w v))
       end)
  | ["viewmut"; x; nav; act] ->
    let m = mapref x in
    let t = root !m in
    (match nav_mut t (parse_nav nav) with
     | None -> add "NOVIEW"
     | Some (tr, v) ->
       add tr;
       if act = "info" then
         addsp ("pfx=" ^ pp (Inst.t_vm_prefix t v) ^ " val=" ^ popt (Views.vm_value t v)
                ^ " hl=" ^ pbool (Inst.t_vm_has_left !w t v) ^ " hr=" ^ pbool (Inst.t_vm_has_right !w t v))
       else if act = "ro" then begin
         let rv = Views.vm_view t v in
         let items = drop3 (Views.v_iter rv) in
         let side o = (match o with None -> "-" | Some v' -> pp (Inst.t_v_prefix v')) in
         addsp ("pfx=" ^ pp (Inst.t_v_prefix rv) ^ " val=" ^ popt (Views.v_value rv)
                ^ " pv=" ^ ppair_opt (Views.v_prefix_value rv)
                ^ " iter=" ^ plist ppair items
                ^ " keys=" ^ plist (fun (p, _) -> pp p) items
                ^ " vals=" ^ plist (fun (_, v) -> string_of_int v) items
                ^ " l=" ^ side (Inst.t_v_left !w rv) ^ " r=" ^ side (Inst.t_v_right !w rv)
                ^ " at=1")
       end
       else if starts act "set:" then begin
         let x = int_of_string (after act "set:") in
         (match v.Views.mvirt, Views.vm_tree t v with
          | None, Trie.Node (i, _, _, _, _) when m == mA ->
            arena_step (fun am -> InstArena.t_a_vm_set am i x) (match Views.vm_tree t v with Trie.Node (_, _, o, _, _) -> o | _ -> None)
          | _ -> ());
         let (t', r) = Views.vm_set t v x in
         m := set_root !m t';
         (match r with Coq_inl old -> addsp ("ok:" ^ popt old) | Coq_inr x -> addsp ("err:" ^ string_of_int x))
       end
       else if act = "remove" then begin
         (match v.Views.mvirt, Views.vm_tree t v with
          | None, Trie.Node (i, _, o, _, _) when m == mA -> arena_step (fun am -> InstArena.t_a_vm_remove am i) o
          | _ -> ());
         let (t', r) = Views.vm_remove t v in m := set_root !m t'; addsp (popt r)
       end
       else if starts act "vmut:" || starts act "pvmut:" then begin
         let isp = starts act "pvmut:" in
         let f = parse_fn (after act (if isp then "pvmut:" else "vmut:")) in
         let (_, r) = Views.vm_value_mut t v (fun x -> x) in
         (match r with
          | None -> addsp "-"
          | Some (p, old) ->
            let nv = apply_fn f 0 old in
            (match v.Views.mvirt, Views.vm_tree t v with
             | None, Trie.Node (i, _, _, _, _) when m == mA ->
               arena_apply (fun am -> match InstArena.t_a_vm_value_mut am i (fun _ -> nv) with
                   | Arena.Ok (am', _) -> Arena.Ok am' | Arena.Panic -> Arena.Panic | Arena.OutOfFuel -> Arena.OutOfFuel)
             | _ -> ());
            let (t', _) = Views.vm_value_mut t v (fun _ -> nv) in
            m := set_root !m t';
            addsp (if isp then ppair (p, old) else string_of_int old))
       end
       else if starts act "itermut:" || starts act "intoiter:" || starts act "valsmut:" then begin
         if m == mA then aA := None;
         let pre = if starts act "itermut:" then "itermut:" else if starts act "intoiter:" then "intoiter:" else "valsmut:" in
         let f = parse_fn (after act pre) in
         let items = Views.vm_iter_mut t v in
         m := set_root !m (Trie.write_ids t (writes f items));
         if pre = "valsmut:" then addsp (plist (fun (_, v) -> string_of_int v) (drop3 items))
         else addsp (plist ppair (drop3 items))
       end
       else addsp "?")
  | [("union" | "inter" | "diff" | "cdiff") as op; xy; n1; n2] ->
    let (ma, mb) = two_maps xy in
    (match nav_ro (root !ma) (parse_nav n1), nav_ro (root !mb) (parse_nav n2) with
     | Some (t1, v1), Some (t2, v2) ->
       let a = Views.v_tree v1 and b = Views.v_tree v2 in
       let items =
         (match op with
          | "union" ->
            plist (function
                | SetOps.ILeft (p, l, r) -> "L:" ^ pp p ^ "=" ^ string_of_int l ^ ":" ^ ppair_opt r
                | SetOps.IRight (p, l, r) -> "R:" ^ pp p ^ "=" ^ ppair_opt l ^ ":" ^ string_of_int r
                | SetOps.IBoth (p, l, r) -> "B:" ^ pp p ^ "=" ^ string_of_int l ^ ":" ^ string_of_int r)
              (get_some (Inst.t_union !w !fl a b))
          | "inter" ->
            plist (fun ((p, l), r) -> pp p ^ "=" ^ string_of_int l ^ ":" ^ string_of_int r)
              (get_some (Inst.t_intersection !w !fl a b))
          | "diff" ->
            plist (fun ((p, l), r) -> pp p ^ "=" ^ string_of_int l ^ ":" ^ ppair_opt r)
              (get_some (Inst.t_difference !w !fl a b))
          | _ ->
            plist (fun (p, l) -> pp p ^ "=" ^ string_of_int l)
              (get_some (Inst.t_covering_difference !w !fl a b))) in
       add (t1 ^ " " ^ t2 ^ " " ^ items)
     | _, _ -> add "NOVIEW")
  | (("umut" | "imut" | "dmut" | "cdmut") as op) :: xy :: n1 :: n2 :: fns ->
    let (ma, mb) = two_maps xy in
    let ta = root !ma and tb = root !mb in
    let second_mut = (op = "umut" || op = "imut") in
    let r1 = nav_mut ta (parse_nav n1) in
    let r2 = if second_mut then
        (match nav_mut tb (parse_nav n2) with None -> None | Some (t, v) -> Some (t, Views.vm_tree tb v))
      else (match nav_ro tb (parse_nav n2) with None -> None | Some (t, v) -> Some (t, Views.v_tree v)) in
    (match r1, r2 with
     | Some (t1, v1), Some (t2, b) ->
       let a = Views.vm_tree ta v1 in
       let f1 = parse_fn (Stdlib.List.nth fns 0) in
       add (t1 ^ " " ^ t2 ^ " ");
       (match op with
        | "umut" ->
          let f2 = parse_fn (Stdlib.List.nth fns 1) in
          let items = get_some (Inst.t_union_mut !w !fl a b) in
          add (plist (fun ((p, l), r) -> pp p ^ "=" ^ idv l ^ ":" ^ idv r) items);
          let wl = Stdlib.List.concat (Stdlib.List.mapi (fun i ((_, l), _) -> match l with Some (id, old) -> [(id, apply_fn f1 i old)] | None -> []) items) in
          let wr = Stdlib.List.concat (Stdlib.List.mapi (fun i ((_, _), r) -> match r with Some (id, old) -> [(id, apply_fn f2 i old)] | None -> []) items) in
          ma := set_root !ma (Trie.write_ids ta wl);
          mb := set_root !mb (Trie.write_ids tb wr)
        | "imut" ->
          let f2 = parse_fn (Stdlib.List.nth fns 1) in
          let items = get_some (Inst.t_intersection_mut !w !fl a b) in
          add (plist (fun ((p, (_, l)), (_, r)) -> pp p ^ "=" ^ string_of_int l ^ ":" ^ string_of_int r) items);
          let wl = Stdlib.List.mapi (fun i ((_, (id, old)), _) -> (id, apply_fn f1 i old)) items in
          let wr = Stdlib.List.mapi (fun i ((_, _), (id, old)) -> (id, apply_fn f2 i old)) items in
          ma := set_root !ma (Trie.write_ids ta wl);
          mb := set_root !mb (Trie.write_ids tb wr)
        | "dmut" ->
          let items = get_some (Inst.t_difference_mut !w !fl a b) in
          add (plist (fun ((p, (_, l)), r) -> pp p ^ "=" ^ string_of_int l ^ ":" ^ ppair_opt r) items);
          let wl = Stdlib.List.mapi (fun i ((_, (id, old)), _) -> (id, apply_fn f1 i old)) items in
          ma := set_root !ma (Trie.write_ids ta wl)
        | _ ->
          let items = get_some (Inst.t_covering_difference_mut !w !fl a b) in
          add (plist (fun (p, (_, l)) -> pp p ^ "=" ^ string_of_int l) items);
          let wl = Stdlib.List.mapi (fun i (_, (id, old)) -> (id, apply_fn f1 i old)) items in
          ma := set_root !ma (Trie.write_ids ta wl))
     | _, _ -> add "NOVIEW")
  | (("umuts" | "imuts" | "dmuts" | "cdmuts") as op) :: x :: nav :: fns ->
    let m = mapref x in
    let t = root !m in
    (match nav_mut t (parse_nav nav) with
     | None -> add "NOVIEW"
     | Some (tr, v) ->
       add tr;
       (match Inst.t_vm_split !w t v with
        | (Some vl, Some vr) ->
          let a = Views.vm_tree t vl and b = Views.vm_tree t vr in
          let f1 = parse_fn (Stdlib.List.nth fns 0) in
          (match op with
           | "umuts" ->
             let f2 = parse_fn (Stdlib.List.nth fns 1) in
             let items = get_some (Inst.t_union_mut !w !fl a b) in
             addsp (plist (fun ((p, l), r) -> pp p ^ "=" ^ idv l ^ ":" ^ idv r) items);
             let wl = Stdlib.List.concat (Stdlib.List.mapi (fun i ((_, l), _) -> match l with Some (id, old) -> [(id, apply_fn f1 i old)] | None -> []) items) in
             let wr = Stdlib.List.concat (Stdlib.List.mapi (fun i ((_, _), r) -> match r with Some (id, old) -> [(id, apply_fn f2 i old)] | None -> []) items) in
             m := set_root !m (Trie.write_ids t (wl @ wr))
           | "imuts" ->
             let f2 = parse_fn (Stdlib.List.nth fns 1) in
             let items = get_some (Inst.t_intersection_mut !w !fl a b) in
             addsp (plist (fun ((p, (_, l)), (_, r)) -> pp p ^ "=" ^ string_of_int l ^ ":" ^ string_of_int r) items);
             let wl = Stdlib.List.mapi (fun i ((_, (id, old)), _) -> (id, apply_fn f1 i old)) items in
             let wr = Stdlib.List.mapi (fun i ((_, _), (id, old)) -> (id, apply_fn f2 i old)) items in
             m := set_root !m (Trie.write_ids t (wl @ wr))
           | "dmuts" ->
             let items = get_some (Inst.t_difference_mut !w !fl a b) in
             addsp (plist (fun ((p, (_, l)), r) -> pp p ^ "=" ^ string_of_int l ^ ":" ^ ppair_opt r) items);
             let wl = Stdlib.List.mapi (fun i ((_, (id, old)), _) -> (id, apply_fn f1 i old)) items in
             m := set_root !m (Trie.write_ids t wl)
           | _ ->
             let items = get_some (Inst.t_covering_difference_mut !w !fl a b) in
             addsp (plist (fun (p, (_, l)) -> pp p ^ "=" ^ string_of_int l) items);
             let wl = Stdlib.List.mapi (fun i (_, (id, old)) -> (id, apply_fn f1 i old)) items in
             m := set_root !m (Trie.write_ids t wl))
        | _ -> addsp "NOVIEW"))
  | ["obs"; x] ->
    let m = !(mapref x) in
    add ("len=" ^ len_str m ^ " empty=" ^ is_empty_str m ^ " iter=" ^ plist ppair (drop3 (Inst.t_iter_items (root m))))
  | ["q"; x; p] ->
    let t = root !(mapref x) in
    let q = parse_pfx p in
    (* drain the cover iterator through its state machine *)
    let cov = ref [] and st = ref Trie.CStart and fin = ref false and n = ref 0 in
    while not !fin do
      let (o, st') = Inst.t_cover_next !w !fl t !st q in
      st := st';
      (match o with Some x -> cov := x :: !cov | None -> fin := true);
      incr n; if !n > 1000 then fin := true
    done;
    let cov = Stdlib.List.rev !cov in
    let cf =
      (let (o1, s1) = Inst.t_cover_next !w !fl t !st q in
       let (o2, _) = Inst.t_cover_next !w !fl t s1 q in
       o1 = None && o2 = None) in
    let va = (match Inst.t_view_at !w !fl t q with
        | None -> "-"
        | Some v -> "(" ^ pp (Inst.t_v_prefix v) ^ " " ^ popt (Views.v_value v) ^ " "
                    ^ plist (fun (p, _) -> pp p) (drop3 (Views.v_iter v)) ^ ")") in
    add ("get=" ^ popt (Inst.t_get !w !fl t q)
         ^ " kv=" ^ ppair_opt (Inst.t_get_key_value !w !fl t q)
         ^ " ck=" ^ pbool (Inst.t_contains_key !w !fl t q)
         ^ " lpm=" ^ ppair_opt (Inst.t_get_lpm !w !fl t q)
         ^ " lpmp=" ^ ppfx_opt (Inst.t_get_lpm_prefix !w !fl t q)
         ^ " spm=" ^ ppair_opt (Inst.t_get_spm !w !fl t q)
         ^ " spmp=" ^ ppfx_opt (Inst.t_get_spm_prefix !w !fl t q)
         ^ " cover=" ^ plist ppair cov
         ^ " ckeys=" ^ plist (fun (p, _) -> pp p) cov
         ^ " cvals=" ^ plist (fun (_, v) -> string_of_int v) cov
         ^ " cf=" ^ pbool cf
         ^ " ch=" ^ plist ppair (drop3 (Inst.t_children !w !fl t q))
         ^ " ich=" ^ plist ppair (drop3 (Inst.t_into_children !w !fl t q))
         ^ " va=" ^ va)
  | ["iters"; x] ->
    let t = root !(mapref x) in
    let it = drop3 (Inst.t_iter_items t) in
    let into = drop3 (Inst.t_into_iter_items t) in
    let keys l = plist (fun (p, _) -> pp p) l and vals l = plist (fun (_, v) -> string_of_int v) l in
    let fused = (match Inst.t_iter_next (S O) [] with Some (None, []) -> true | _ -> false) in
    add ("iter=" ^ plist ppair it ^ " keys=" ^ keys it ^ " vals=" ^ vals it ^ " ref=" ^ plist ppair it
         ^ " into=" ^ plist ppair into ^ " ikeys=" ^ keys into ^ " ivals=" ^ vals into
         ^ " ich=" ^ plist ppair (drop3 (Inst.t_into_children !w !fl t PrefixN.pzero))
         ^ " clone=1 fused=" ^ pbool fused)
  | ["arena"; x] ->
    let m = !(mapref x) in
    let rec ids t = (match t with Trie.Leaf -> [] | Trie.Node (i, _, _, l, r) -> int_of_n i :: (ids l @ ids r)) in
    let reach = ids (root m) in
    let fr = Stdlib.List.map int_of_n m.Trie.al.Trie.free in
    let alen = int_of_n m.Trie.al.Trie.alen in
    let all = Stdlib.List.sort compare (reach @ fr) in
    let part = (all = Stdlib.List.init alen (fun i -> i)) in
    add ("alen=" ^ string_of_int alen ^ " nfree=" ^ string_of_int (Stdlib.List.length fr)
         ^ " nreach=" ^ string_of_int (Stdlib.List.length reach) ^ " part=" ^ pbool part ^ " count=" ^ len_str m)
  | ["serde"; x] ->
    if not (serde_supported !tyname) then add "unsupported"
    else begin
      let m = !(mapref x) in
      let es = drop3 (Inst.t_iter_items (root m)) in
      let m2 = Inst.t_from_list !w !fl es in
      add ("eq=" ^ pbool (Inst.t_map_eq ieq (root m2) (root m)) ^ " iter=" ^ plist ppair (drop3 (Inst.t_iter_items (root m2))))
    end
  (* ---- PrefixSet ---- *)
  | ["sins"; p] ->
    let (m', o) = Inst.t_insert !w !fl !mT (parse_pfx p) () in mT := m'; add (pbool (o = None))
  | ["srem"; p] ->
    let (m', o) = Inst.t_remove !w !fl !mT (parse_pfx p) in mT := m'; add (pbool (o <> None))
  | ["sremk"; p] ->
    let (m', o) = Inst.t_remove_keep_tree !w !fl !mT (parse_pfx p) in mT := m'; add (pbool (o <> None))
  | ["sremc"; p] -> mT := Inst.t_remove_children !w !fl !mT (parse_pfx p); add "ok"
  | ["sclear"] -> mT := Inst.t_clear !mT; add "ok"
  | ["ssave"] -> sT := !mT; add "ok"
  | ["sretain"; pred] ->
    let pr = parse_pred pred in
    let ((m', _), _) = Inst.t_retain (fun _ p () -> Some (pr p 0)) !mT in
    mT := m'; add "ok"
  | ["seq"] ->
    add (pbool (Inst.t_map_eq ueq (root !mT) (root !sT)) ^ " " ^ pbool (Inst.t_map_eq ueq (root !sT) (root !mT)))
  | ["fromlist"; x; items] ->
    let l = if items = "-" then [] else
        Stdlib.List.map (fun it -> match String.split_on_char '=' it with
            | [p; v] -> (parse_pfx p, int_of_string v) | _ -> failwith "fromlist") (String.split_on_char ',' items) in
    (mapref x) := Inst.t_from_list !w !fl l; add "ok"
  | ["sfromlist"; items] ->
    let l = if items = "-" then [] else Stdlib.List.map (fun p -> (parse_pfx p, ())) (String.split_on_char ',' items) in
    mT := Inst.t_from_list !w !fl l; add "ok"
  | ["sshape"] ->
    let rec sshape (v : (pfx, unit) Views.view) : string =
      let side = function None -> "." | Some v' -> sshape v' in
      "(" ^ pp (Inst.t_v_prefix v) ^ " " ^ (match Views.v_value v with Some () -> "1" | None -> "-") ^ " "
      ^ side (Inst.t_v_left !w v) ^ " " ^ side (Inst.t_v_right !w v) ^ ")" in
    add (sshape (Views.view_of (root !mT)))
  | ["sviewat"; p] ->
    (match Inst.t_view_at !w !fl (root !mT) (parse_pfx p) with
     | None -> add "none"
     | Some v ->
       let items = drop3 (Views.v_iter v) in
       add ("pfx=" ^ pp (Inst.t_v_prefix v) ^ " val=" ^ pbool (Views.v_value v <> None)
            ^ " keys=" ^ plist (fun (p, _) -> pp p) items
            ^ " l=" ^ pbool (Inst.t_v_left !w v <> None) ^ " r=" ^ pbool (Inst.t_v_right !w v <> None)))
  | ["sobs"] ->
    let m = !mT in
    let it = drop3 (Inst.t_iter_items (root m)) and into = drop3 (Inst.t_into_iter_items (root m)) in
    add ("len=" ^ len_str m ^ " empty=" ^ is_empty_str m ^ " iter=" ^ plist (fun (p, _) -> pp p) it
         ^ " into=" ^ plist (fun (p, _) -> pp p) into)
  | ["sq"; p] ->
    let t = root !mT in
    let q = parse_pfx p in
    let fstp o = (match o with None -> "-" | Some (p, _) -> pp p) in
    add ("has=" ^ pbool (Inst.t_contains_key !w !fl t q)
         ^ " get=" ^ fstp (Inst.t_get_key_value !w !fl t q)
         ^ " lpm=" ^ fstp (Inst.t_get_lpm !w !fl t q)
         ^ " spm=" ^ ppfx_opt (Inst.t_get_spm_prefix !w !fl t q)
         ^ " cover=" ^ plist (fun (p, _) -> pp p) (Inst.t_cover_drain !w !fl (nat_of_int 300) t Trie.CStart q)
         ^ " ch=" ^ plist (fun (p, _) -> pp p) (drop3 (Inst.t_children !w !fl t q)))
  | ["sunion"; n1; n2] ->
    (match nav_ro (root !mT) (parse_nav n1), nav_ro (root !mA) (parse_nav n2) with
     | Some (t1, v1), Some (t2, v2) ->
       let items = get_some (Inst.t_union !w !fl (Views.v_tree v1) (Views.v_tree v2)) in
       add (t1 ^ " " ^ t2 ^ " " ^ plist (function
           | SetOps.ILeft (p, (), r) -> "L:" ^ pp p ^ ":" ^ ppair_opt r
           | SetOps.IRight (p, l, r) -> "R:" ^ pp p ^ ":" ^ (match l with None -> "-" | Some (lp, ()) -> pp lp) ^ "=" ^ string_of_int r
           | SetOps.IBoth (p, (), r) -> "B:" ^ pp p ^ ":" ^ string_of_int r) items)
     | _, _ -> add "NOVIEW")
  | ["alg"; p; q; i] ->
    (* algebra lines build raw prefixes through from_repr_len as well *)
    let a = parse_pfx p and b = parse_pfx q and i = n_of_int (int_of_string i) in
    let l = PrefixN.lcp !w !fl a b in
    add ("m1=" ^ hex_of_n (PrefixN.pmask !w a)
         ^ " eq=" ^ pbool (PrefixN.peq !w a b)
         ^ " c12=" ^ pbool (PrefixN.contains !w !fl a b)
         ^ " c21=" ^ pbool (PrefixN.contains !w !fl b a)
         ^ " lcp=" ^ pp l
         ^ " lcpm=" ^ hex_of_n (PrefixN.pmask !w l)
         ^ " b1=" ^ pbool (PrefixN.is_bit_set !w a i)
         ^ " b2=" ^ pbool (PrefixN.is_bit_set !w b i)
         ^ " z=" ^ pp (PrefixN.from_repr_len !w !fl N0 N0)
         ^ " tr=" ^ pbool (PrefixN.is_bit_set !w b a.PrefixN.plen))
  | _ -> add "?"

let () =
  let ic = if Array.length Sys.argv > 1 then open_in Sys.argv.(1) else stdin in
  let oc = stdout in
  (try
     while true do
       let line = input_line ic in
       if String.length line = 0 || line.[0] = '#' then ()
       else begin
         let toks = String.split_on_char ' ' line in
         match toks with
         | ["S"; id; ty] ->
           let (wi, f) = type_info ty in
           w := n_of_int wi; fl := f; tyname := ty;
           aA := Some InstArena.t_a_empty; mA := Inst.t_empty; mB := Inst.t_empty; sA := Inst.t_empty; sB := Inst.t_empty;
           mT := Inst.t_empty; sT := Inst.t_empty;
           output_string oc ("S " ^ id ^ "\n")
         | _ ->
           Buffer.clear out;
           (try exec toks with
            | Panic -> addsp "PANIC"
            | Stop -> ());
           Buffer.add_char out '\n';
           Buffer.output_buffer oc out
       end
     done
   with End_of_file -> ());
  flush oc
