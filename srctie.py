"""Static tie between the hand-written model and /repo's sources (DESIGN.md section 4.6).

`source_baseline.json` records, per Rust source file of the crate, a hash of its token stream
(comments and white space removed) as it was when the model was last validated against it
(all checks green at the thorough case counts).  A run compares the current working tree with that
record.  A difference is never a violation by itself; it (a) is written into the evidence and
(b) makes the quick tier explore ESCALATE times as many scripts (capped by the thorough count),
because a changed source is exactly the situation in which the model may no longer describe it."""
import hashlib, json, os, re

HERE = os.path.dirname(os.path.abspath(__file__))
BASE = os.path.join(HERE, 'source_baseline.json')
REPO_SRC = '/repo/src'
ESCALATE = 6


def strip(text):
    """drop // and /* */ comments (outside string literals, approximately) and all white space"""
    out = []
    i, n = 0, len(text)
    while i < n:
        c = text[i]
        if text.startswith('//', i):
            j = text.find('\n', i)
            i = n if j < 0 else j
        elif text.startswith('/*', i):
            j = text.find('*/', i + 2)
            i = n if j < 0 else j + 2
        elif c == '"':
            j = i + 1
            while j < n and text[j] != '"':
                j += 2 if text[j] == '\\' else 1
            out.append(text[i:j + 1])
            i = j + 1
        elif c.isspace():
            i += 1
        else:
            out.append(c)
            i += 1
    return ''.join(out)


def current():
    res = {}
    for root, dirs, files in os.walk(REPO_SRC):
        dirs[:] = sorted(d for d in dirs if d != 'fuzzing')
        for f in sorted(files):
            if f.endswith('.rs') and f != 'test.rs' and f != 'tests.rs':
                p = os.path.join(root, f)
                try:
                    res[os.path.relpath(p, '/repo')] = hashlib.sha256(strip(open(p, errors='replace').read()).encode()).hexdigest()[:20]
                except OSError:
                    pass
    return res


def changed():
    """list of source files whose token stream differs from the recorded baseline"""
    try:
        base = json.load(open(BASE))['files']
    except Exception:
        return ['<no baseline>']
    cur = current()
    return sorted(f for f in set(base) | set(cur) if base.get(f) != cur.get(f))


if __name__ == '__main__':
    import subprocess, sys
    if len(sys.argv) > 1 and sys.argv[1] == '--record':
        head = subprocess.run('git -C /repo rev-parse --short HEAD', shell=True, stdout=subprocess.PIPE).stdout.decode().strip()
        json.dump(dict(repo_commit=head, files=current()), open(BASE, 'w'), indent=1)
        print('recorded', len(current()), 'files at', head)
    else:
        print(changed())
